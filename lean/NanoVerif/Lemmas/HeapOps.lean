/-
C14 helper lemmas, instruction level: every handler of `execData'`, the call and return
instructions and the implicit return keep the heap invariant `SX` (counts, liveness, kinds),
for every operand, every stack height and every heap.
-/
import NanoVerif.Lemmas.HeapStep
namespace NanoVerif.C14
open Gen (Opc)

/-- roots of a VM state -/
def rootsOf (c : Core) (frames : List Frame) : List Val :=
  c.stack ++ c.globals ++ frames.filterMap (fun fr => fr.closure.map Val.clos)

/-- the invariant of a state whose handler still holds `ex` in C locals -/
def SX (c : Core) (frames : List Frame) (ex : List Val) : Prop := HX (rootsOf c frames) c.heap ex

macro "levals" : tactic =>
  `(tactic| (intro v _; simp only [rootsOf, Core.push, List.count_append, List.count_cons, List.count_nil, List.append_assoc]; omega))

theorem SX.congr {c c' : Core} {frames : List Frame} {ex : List Val} (h : SX c frames ex)
    (hs : c'.stack = c.stack) (hg : c'.globals = c.globals) (hh : c'.heap = c.heap) : SX c' frames ex := by
  unfold SX rootsOf at *
  rw [hs, hg, hh]; exact h

theorem SX.perm {c : Core} {frames : List Frame} {ex ex' : List Val} (h : SX c frames ex) (hle : LeVals ex' ex) :
    SX c frames ex' := by
  apply HX.mono h
  intro v hv
  have := hle v hv
  simp only [List.count_append]; omega

theorem SX.drop {c : Core} {frames : List Frame} {v : Val} {ex : List Val} (h : SX c frames (v :: ex)) : SX c frames ex :=
  h.perm (by intro w _; simp only [List.count_cons]; omega)

theorem SX.pop {c : Core} {frames : List Frame} {ex : List Val} (h : SX c frames ex) : SX c.pop.1 frames (c.pop.2 :: ex) := by
  unfold SX at *
  unfold Core.pop
  cases hl : c.stack.getLast? with
  | none =>
    have : c.stack = [] := List.getLast?_eq_none_iff.mp hl
    simp only
    apply HX.mono h
    intro v hv
    have : ([Val.void] : List Val).count v = 0 := List.count_eq_zero.mpr (by simp; intro e; subst e; exact hv rfl)
    simp only [List.count_append, List.count_cons, List.count_nil] at this ⊢
    omega
  | some w =>
    obtain ⟨ys, hys⟩ := List.getLast?_eq_some_iff.mp hl
    simp only
    apply HX.mono h
    intro v _
    simp only [rootsOf, hys, List.dropLast_concat, List.count_append, List.count_cons, List.count_nil]
    omega

theorem SX.push {c : Core} {frames : List Frame} {v : Val} {ex : List Val} (h : SX c frames (v :: ex)) : SX (c.push v) frames ex := by
  unfold SX at *
  apply HX.mono h
  levals

theorem SX.pushScalar {c : Core} {frames : List Frame} {ex : List Val} (h : SX c frames ex) (v : Val) (hv : v.addr? = none) :
    SX (c.push v) frames ex := by
  unfold SX at *
  apply HX.mono h
  intro w hw
  have : ([v] : List Val).count w = 0 := List.count_eq_zero.mpr (by simp; intro e; subst e; exact hw hv)
  simp only [rootsOf, Core.push, List.count_append, List.count_cons, List.count_nil] at this ⊢
  omega

theorem SX.release {c : Core} {frames : List Frame} {v : Val} {ex : List Val} (h : SX c frames (v :: ex)) : SX (c.release v) frames ex :=
  HX.release h

theorem SX.retainHeld {c : Core} {frames : List Frame} {ex : List Val} (h : SX c frames ex) (v : Val)
    (hm : v.addr? = none ∨ v ∈ rootsOf c frames ++ ex) : SX (c.retain v) frames (v :: ex) :=
  HX.retain_held h v hm

theorem SX.retainKid {c : Core} {frames : List Frame} {ex : List Val} (h : SX c frames ex) (v : Val) (a : Nat) (o : Obj)
    (ho : c.heap.obj? a = some o) (hm : v ∈ o.kids) : SX (c.retain v) frames (v :: ex) := by
  obtain ⟨cell, hg, he⟩ := obj?_eq ho
  exact HX.retain_kid h v (a, cell) (Heap.get?_some_mem hg) (by rw [he]; exact hm)

theorem SX.alloc {c : Core} {frames : List Frame} {ex : List Val} (o : Obj) (mk : Nat → Val)
    (hmk : ∀ a, (mk a).addr? = some a) (hmkk : ∀ a, (mk a).okind = some o.kind)
    (h : SX c frames (o.kids ++ ex)) : SX { c with heap := (c.heap.alloc o).1 } frames (mk (c.heap.alloc o).2 :: ex) :=
  HX.alloc o mk hmk hmkk h

theorem SX.strNew {c : Core} {frames : List Frame} {ex : List Val} (b : Bytes) (h : SX c frames ex) :
    SX { c with heap := (c.heap.strNew b).1 } frames ((c.heap.strNew b).2 :: ex) :=
  HX.strNew b h

theorem SX.setKids {c : Core} {frames : List Frame} {ex : List Val} (a : Nat) (o o' : Obj) (inn out : List Val)
    (h : SX c frames (inn ++ ex)) (ho : c.heap.obj? a = some o) (hkind : o'.kind = o.kind)
    (hle : LeVals (o'.kids ++ out) (o.kids ++ inn)) : SX { c with heap := c.heap.setObj a o' } frames (out ++ ex) := by
  obtain ⟨cell, hg, he⟩ := obj?_eq ho
  exact HX.setKids a cell o' inn out h hg (by rw [he]; exact hkind) (by rw [he]; exact hle)

theorem SX.popN {c : Core} {frames : List Frame} {ex : List Val} (n : Nat) (h : SX c frames ex) :
    SX (c.popN n).1 frames ((c.popN n).2 ++ ex) := by
  unfold SX at *
  unfold Core.popN
  simp only
  apply HX.mono h
  intro v hv
  have h0 : (List.replicate (n - min n c.stack.length) Val.void).count v = 0 :=
    List.count_eq_zero.mpr (by intro hm; have := List.eq_of_mem_replicate hm; subst this; exact hv rfl)
  have h1 : (c.stack.take (c.stack.length - min n c.stack.length)).count v + (c.stack.drop (c.stack.length - min n c.stack.length)).count v = c.stack.count v := by
    rw [← List.count_append, List.take_append_drop]
  simp only [rootsOf, List.count_append] at h0 h1 ⊢
  omega

/-- the object behind a held value of each kind is there and has that kind: the `dangling ...` branches of the
    handlers are unreachable -/
theorem SX.obj_of_held {c : Core} {frames : List Frame} {ex : List Val} (h : SX c frames ex) {v : Val} {a : Nat}
    (hm : v ∈ rootsOf c frames ++ ex) (ha : v.addr? = some a) :
    ∃ o, c.heap.obj? a = some o ∧ v.okind = some o.kind := by
  obtain ⟨cell, hg⟩ := Heap.mem_key_get? (HX.live h hm ha)
  refine ⟨cell.obj, by simp [Heap.obj?, hg], ?_⟩
  exact h.kinds.1 v hm a cell ha (Heap.get?_some_mem hg)

/-! ### stack and variable instructions -/

abbrev OK (c : Core) (frames : List Frame) : Prop := SX c frames []

theorem count_set_val (l : List Val) (i : Nat) (v d : Val) (hi : i < l.length) (w : Val) :
    (l.set i v).count w + [l.getD i d].count w = l.count w + [v].count w := by
  induction l generalizing i with
  | nil => simp at hi
  | cons a r ih =>
    cases i with
    | zero => simp only [List.set_cons_zero, List.getD_cons_zero, List.count_cons, List.count_nil]; omega
    | succ j =>
      have := ih j (by simpa using hi)
      simp only [List.set_cons_succ, List.getD_cons_succ, List.count_cons, List.count_nil] at this ⊢
      omega

theorem getD_set_ne (l : List Val) (i j : Nat) (v d : Val) (hne : i ≠ j) : (l.set i v).getD j d = l.getD j d := by
  rw [List.getD_eq_getElem?_getD, List.getD_eq_getElem?_getD, List.getElem?_set_ne hne]

theorem count_void (w : Val) (hw : w.addr? ≠ none) : ([Val.void] : List Val).count w = 0 :=
  List.count_eq_zero.mpr (by simp; intro e; subst e; exact hw rfl)

theorem count_replicate_void (n : Nat) (w : Val) (hw : w.addr? ≠ none) : (List.replicate n Val.void).count w = 0 :=
  List.count_eq_zero.mpr (by intro hm; have := List.eq_of_mem_replicate hm; subst this; exact hw rfl)

theorem getD_mem_or_default (l : List Val) (i : Nat) (d : Val) : l.getD i d = d ∨ l.getD i d ∈ l := by
  rw [List.getD_eq_getElem?_getD]
  cases hl : l[i]? with
  | none => left; rfl
  | some v => right; exact List.mem_of_getElem? hl

theorem err_ok {c : Core} {frames : List Frame} (h : OK c frames) (e : RtErr) : OK (errS c e).1 frames := h
theorem unsup_ok {c : Core} {frames : List Frame} (h : OK c frames) (w : String) : OK (unsup c w).1 frames := h

theorem swap_ok (m : Module) (fr : Frame) (c : Core) (frames : List Frame) (is : Nat) (args : List Nat) (h : OK c frames) :
    OK (execData' m fr c is .SWAP args).1 frames := by
  simp only [execData']
  split
  · exact h
  rename_i hl
  simp only [cont]
  unfold OK SX at *
  apply HX.mono h
  intro w _
  have e1 := count_set_val c.stack (c.stack.length - 1) (c.stack.getD (c.stack.length - 2) .void) .void (by omega) w
  have e2 := count_set_val (c.stack.set (c.stack.length - 1) (c.stack.getD (c.stack.length - 2) .void)) (c.stack.length - 2)
    (c.stack.getD (c.stack.length - 1) .void) .void (by simp; omega) w
  rw [getD_set_ne _ _ _ _ _ (by omega)] at e2
  simp only [rootsOf, List.count_append] at e1 e2 ⊢
  omega

theorem rot3_ok (m : Module) (fr : Frame) (c : Core) (frames : List Frame) (is : Nat) (args : List Nat) (h : OK c frames) :
    OK (execData' m fr c is .ROT3 args).1 frames := by
  simp only [execData']
  split
  · exact h
  rename_i hl
  simp only [cont]
  unfold OK SX at *
  apply HX.mono h
  intro w _
  have e1 := count_set_val c.stack (c.stack.length - 1) (c.stack.getD (c.stack.length - 2) .void) .void (by omega) w
  have e2 := count_set_val (c.stack.set (c.stack.length - 1) (c.stack.getD (c.stack.length - 2) .void)) (c.stack.length - 2)
    (c.stack.getD (c.stack.length - 3) .void) .void (by simp; omega) w
  have e3 := count_set_val ((c.stack.set (c.stack.length - 1) (c.stack.getD (c.stack.length - 2) .void)).set (c.stack.length - 2)
    (c.stack.getD (c.stack.length - 3) .void)) (c.stack.length - 3) (c.stack.getD (c.stack.length - 1) .void) .void (by simp; omega) w
  rw [getD_set_ne _ _ _ _ _ (by omega)] at e2
  rw [getD_set_ne _ _ _ _ _ (by omega), getD_set_ne _ _ _ _ _ (by omega)] at e3
  simp only [rootsOf, List.count_append] at e1 e2 e3 ⊢
  omega

theorem peek_mem (c : Core) : c.peek 0 = .void ∨ c.peek 0 ∈ c.stack := by
  unfold Core.peek
  by_cases h : 0 ≥ c.stack.length
  · simp [h]
  · right
    simp only [h, if_false]
    exact (getD_mem_or_default c.stack _ .void).elim (fun e => by
      have hlt : c.stack.length - 1 - 0 < c.stack.length := by omega
      rw [List.getD_eq_getElem?_getD, List.getElem?_eq_getElem hlt]; simp) id

theorem held_of_stack {c : Core} {frames : List Frame} {ex : List Val} {v : Val} (hv : v = .void ∨ v ∈ c.stack) :
    v.addr? = none ∨ v ∈ rootsOf c frames ++ ex := by
  rcases hv with rfl | hm
  · left; rfl
  · right; simp [rootsOf, hm]

theorem held_of_globals {c : Core} {frames : List Frame} {ex : List Val} {v : Val} (hv : v = .void ∨ v ∈ c.globals) :
    v.addr? = none ∨ v ∈ rootsOf c frames ++ ex := by
  rcases hv with rfl | hm
  · left; rfl
  · right; simp [rootsOf, hm]

theorem store_local_ok (m : Module) (fr : Frame) (c : Core) (frames : List Frame) (is : Nat) (args : List Nat) (h : OK c frames) :
    OK (execData' m fr c is .STORE_LOCAL args).1 frames := by
  have h1 := h.pop
  simp only [execData']
  generalize u32 (fr.stackBase + args.getD 0 0) = k
  split
  · exact h
  · simp only [Core.release]
    by_cases hlt : k < c.pop.1.stack.length
    · simp only [hlt, if_true, cont]
      have h2 : SX { c.pop.1 with stack := c.pop.1.stack.set k c.pop.2 } frames [c.pop.1.stack.getD k c.pop.2] := by
        unfold SX at *
        apply HX.mono h1
        intro w _
        have e := count_set_val c.pop.1.stack k c.pop.2 c.pop.2 hlt w
        simp only [rootsOf, List.count_append, List.count_cons, List.count_nil] at e ⊢
        omega
      exact h2.release.congr rfl rfl rfl
    · simp only [hlt, if_false, cont]
      have e : c.pop.1.stack.getD k c.pop.2 = c.pop.2 := by
        rw [List.getD_eq_getElem?_getD, List.getElem?_eq_none (by omega)]; rfl
      rw [e]
      exact h1.release

theorem store_global_ok (m : Module) (fr : Frame) (c : Core) (frames : List Frame) (is : Nat) (args : List Nat) (h : OK c frames) :
    OK (execData' m fr c is .STORE_GLOBAL args).1 frames := by
  have h1 := h.pop
  simp only [execData']
  generalize args.getD 0 0 = k
  split
  · exact h
  simp only [Core.release, cont]
  generalize hG : (if k < c.pop.1.globals.length then c.pop.1.globals else c.pop.1.globals ++ List.replicate (k + 1 - c.pop.1.globals.length) .void) = G
  have hGlen : k < G.length := by
    rw [← hG]; split
    · assumption
    · simp; omega
  have hGget : G.getD k .void = c.pop.1.globals.getD k .void := by
    rw [← hG]; split
    · rfl
    · rename_i hk
      rw [List.getD_eq_getElem?_getD, List.getD_eq_getElem?_getD, List.getElem?_append_right (by omega), List.getElem?_eq_none (l := c.pop.1.globals) (by omega)]
      simp only [List.getElem?_replicate]
      split <;> rfl
  have hGcount : ∀ w : Val, w.addr? ≠ none → G.count w = c.pop.1.globals.count w := by
    intro w hw
    rw [← hG]; split
    · rfl
    · rw [List.count_append, count_replicate_void _ _ hw]; rfl
  have h2 : SX { c.pop.1 with globals := G.set k c.pop.2 } frames [c.pop.1.globals.getD k .void] := by
    unfold SX at *
    apply HX.mono h1
    intro w hw
    have e := count_set_val G k c.pop.2 .void hGlen w
    rw [hGget, hGcount w hw] at e
    simp only [rootsOf, List.count_append, List.count_cons, List.count_nil] at e ⊢
    omega
  subst hG
  exact h2.release.congr rfl rfl rfl

/-! ### handlers that only pop, release, intern and push -/

theorem strBytes_of_held {c : Core} {frames : List Frame} {ex : List Val} (h : SX c frames ex) {a : Nat}
    (hm : Val.str a ∈ rootsOf c frames ++ ex) : ∃ b, c.heap.strBytes? (.str a) = some b := by
  obtain ⟨o, ho, hk⟩ := h.obj_of_held hm rfl
  obtain ⟨cell, hg, he⟩ := obj?_eq ho
  cases o with
  | str b => exact ⟨b, by simp [Heap.strBytes?, hg, he]; cases cell; simp_all⟩
  | _ => simp [Val.okind, Obj.kind] at hk

theorem binCompare_ok (c : Core) (frames : List Frame) (f : Heap → Val → Val → Option Bool) (h : OK c frames) :
    OK (binCompare c f).1 frames := by
  have h2 := h.pop.pop
  unfold binCompare
  simp only
  split
  · exact h2.drop.drop
  · exact (h2.pushScalar _ rfl).release.release

theorem simple_ok (m : Module) (fr : Frame) (c : Core) (frames : List Frame) (is : Nat) (args : List Nat) (op : Opc)
    (hop : op ∈ [Opc.NOP, .DEBUG_LINE, .GC_SCOPE_ENTER, .GC_SCOPE_EXIT, .PUSH_I64, .PUSH_F64, .PUSH_BOOL, .PUSH_VOID, .PUSH_U8,
                 .ENUM_VAL, .OPAQUE_NULL, .HALT, .CALL_MODULE, .STR_FROM_FLOAT, .CAST_FLOAT,
                 .HM_NEW, .HM_GET, .HM_SET, .HM_HAS, .HM_DELETE, .HM_KEYS, .HM_VALUES, .HM_LEN,
                 .EQ, .NE, .LT, .LE, .GT, .GE, .AND, .OR, .JMP, .CALL, .CALL_INDIRECT, .CLOSURE_CALL, .RET])
    (h : OK c frames) : OK (execData' m fr c is op args).1 frames := by
  simp only [List.mem_cons, List.mem_nil_iff, or_false] at hop
  rcases hop with rfl | rfl | rfl | rfl | rfl | rfl | rfl | rfl | rfl | rfl | rfl | rfl | rfl | rfl | rfl | rfl | rfl | rfl | rfl | rfl | rfl | rfl | rfl | rfl | rfl | rfl | rfl | rfl | rfl | rfl | rfl | rfl | rfl | rfl | rfl | rfl
  all_goals simp only [execData']
  all_goals first
    | exact h
    | exact h.pushScalar _ rfl
    | exact binCompare_ok c frames _ h
    | exact h.congr rfl rfl rfl

theorem push_str_ok (m : Module) (fr : Frame) (c : Core) (frames : List Frame) (is : Nat) (args : List Nat) (h : OK c frames) :
    OK (execData' m fr c is .PUSH_STR args).1 frames := by
  simp only [execData']
  exact (h.strNew _).push

theorem dup_ok (m : Module) (fr : Frame) (c : Core) (frames : List Frame) (is : Nat) (args : List Nat) (h : OK c frames) :
    OK (execData' m fr c is .DUP args).1 frames := by
  simp only [execData']
  exact (h.retainHeld _ (held_of_stack (peek_mem c))).push

theorem gc_retain_ok (m : Module) (fr : Frame) (c : Core) (frames : List Frame) (is : Nat) (args : List Nat) (h : OK c frames) :
    OK (execData' m fr c is .GC_RETAIN args).1 frames := by
  simp only [execData']
  exact (h.retainHeld _ (held_of_stack (peek_mem c))).drop

theorem pop_ok (m : Module) (fr : Frame) (c : Core) (frames : List Frame) (is : Nat) (args : List Nat) (op : Opc)
    (hop : op = .POP ∨ op = .GC_RELEASE) (h : OK c frames) : OK (execData' m fr c is op args).1 frames := by
  rcases hop with rfl | rfl <;> simp only [execData'] <;> exact h.pop.release

theorem load_local_ok (m : Module) (fr : Frame) (c : Core) (frames : List Frame) (is : Nat) (args : List Nat) (h : OK c frames) :
    OK (execData' m fr c is .LOAD_LOCAL args).1 frames := by
  simp only [execData']
  split
  · exact h
  · exact (h.retainHeld _ (held_of_stack (getD_mem_or_default _ _ _))).push

theorem load_global_ok (m : Module) (fr : Frame) (c : Core) (frames : List Frame) (is : Nat) (args : List Nat) (h : OK c frames) :
    OK (execData' m fr c is .LOAD_GLOBAL args).1 frames := by
  simp only [execData']
  split
  · exact h
  · exact (h.retainHeld _ (held_of_globals (getD_mem_or_default _ _ _))).push

theorem load_upvalue_ok (m : Module) (fr : Frame) (c : Core) (frames : List Frame) (is : Nat) (args : List Nat) (h : OK c frames) :
    OK (execData' m fr c is .LOAD_UPVALUE args).1 frames := by
  simp only [execData']
  split
  · rename_i fn caps hb
    split
    · rename_i hlt
      obtain ⟨ca, _, ho⟩ := Option.bind_eq_some_iff.mp hb
      have hm : caps.getD (args.getD 1 0) .void ∈ caps := by
        rw [List.getD_eq_getElem?_getD, List.getElem?_eq_getElem hlt]; simp
      exact (h.retainKid _ ca _ ho hm).push
    · exact h.pushScalar _ rfl
  · exact h.pushScalar _ rfl

theorem jmp_cond_ok (m : Module) (fr : Frame) (c : Core) (frames : List Frame) (is : Nat) (args : List Nat) (op : Opc)
    (hop : op = .JMP_TRUE ∨ op = .JMP_FALSE) (h : OK c frames) : OK (execData' m fr c is op args).1 frames := by
  have h1 := h.pop
  rcases hop with rfl | rfl <;> simp only [execData'] <;> split
  all_goals first
    | exact (h1.congr rfl rfl rfl).release
    | exact h1.release

theorem pop1_family_ok (m : Module) (fr : Frame) (c : Core) (frames : List Frame) (is : Nat) (args : List Nat) (op : Opc)
    (hop : op ∈ [Opc.NOT, .CAST_BOOL, .TYPE_CHECK, .OPAQUE_VALID, .ASSERT, .NEG, .STR_LEN, .STR_FROM_INT])
    (h : OK c frames) : OK (execData' m fr c is op args).1 frames := by
  have h1 := h.pop
  simp only [List.mem_cons, List.mem_nil_iff, or_false] at hop
  rcases hop with rfl | rfl | rfl | rfl | rfl | rfl | rfl | rfl
  · simp only [execData']; exact (h1.pushScalar _ rfl).release
  · simp only [execData']; exact h1.release.pushScalar _ rfl
  · simp only [execData']; exact (h1.pushScalar _ rfl).release
  · simp only [execData']; exact h1.drop.pushScalar _ rfl
  · simp only [execData']; split <;> exact h1.release
  · simp only [execData']; split
    · exact h1.drop.pushScalar _ rfl
    · exact h1.drop
    · exact h1.drop
  · simp only [execData']; split
    · exact h1.release.pushScalar _ rfl
    · exact h1.release
  · simp only [execData']; exact (h1.drop.strNew _).push

theorem print_ok (m : Module) (fr : Frame) (c : Core) (frames : List Frame) (is : Nat) (args : List Nat) (op : Opc)
    (hop : op = .PRINT ∨ op = .PRINTLN) (h : OK c frames) : OK (execData' m fr c is op args).1 frames := by
  have h1 := h.pop
  rcases hop with rfl | rfl <;> simp only [execData'] <;> split
  all_goals first
    | exact h1.drop
    | exact (h1.congr rfl rfl rfl).release

theorem call_extern_ok (m : Module) (fr : Frame) (c : Core) (frames : List Frame) (is : Nat) (args : List Nat) (h : OK c frames) :
    OK (execData' m fr c is .CALL_EXTERN args).1 frames := by
  simp only [execData']; split <;> exact h

theorem str2_family_ok (m : Module) (fr : Frame) (c : Core) (frames : List Frame) (is : Nat) (args : List Nat) (op : Opc)
    (hop : op ∈ [Opc.STR_CONCAT, .STR_CONTAINS, .STR_EQ, .STR_CHAR_AT])
    (h : OK c frames) : OK (execData' m fr c is op args).1 frames := by
  have h2 := h.pop.pop
  simp only [List.mem_cons, List.mem_nil_iff, or_false] at hop
  rcases hop with rfl | rfl | rfl | rfl
  · simp only [execData']; split
    · exact ((h2.strNew _).perm (ex' := [c.pop.1.pop.2, c.pop.2, _]) (by levals)).release.release.push
    · exact h2.release.release
  · simp only [execData']; split
    · exact h2.release.release.pushScalar _ rfl
    · exact h2.release.release
  · simp only [execData']; split
    · exact h2.release.release.pushScalar _ rfl
    · exact h2.release.release
  · simp only [execData']; split
    · exact h2.release.drop
    · exact h2.release.drop.pushScalar _ rfl

theorem str_substr_ok (m : Module) (fr : Frame) (c : Core) (frames : List Frame) (is : Nat) (args : List Nat) (h : OK c frames) :
    OK (execData' m fr c is .STR_SUBSTR args).1 frames := by
  have h3 := h.pop.pop.pop
  simp only [execData']
  split
  · exact h3.release.drop.drop
  · exact ((h3.strNew _).perm (ex' := [c.pop.1.pop.1.pop.2, _, c.pop.1.pop.2, c.pop.2]) (by levals)).release.push.drop.drop

/-! ### containers -/

theorem arr_of_held {c : Core} {frames : List Frame} {ex : List Val} (h : SX c frames ex) {a : Nat}
    (hm : Val.arr a ∈ rootsOf c frames ++ ex) : ∃ et es, c.heap.obj? a = some (.arr et es) := by
  obtain ⟨o, ho, hk⟩ := h.obj_of_held hm rfl
  cases o with
  | arr et es => exact ⟨et, es, ho⟩
  | _ => simp [Val.okind, Obj.kind] at hk

theorem struct_of_held {c : Core} {frames : List Frame} {ex : List Val} (h : SX c frames ex) {a : Nat}
    (hm : Val.struct a ∈ rootsOf c frames ++ ex) : ∃ d fs, c.heap.obj? a = some (.struct d fs) := by
  obtain ⟨o, ho, hk⟩ := h.obj_of_held hm rfl
  cases o with
  | struct d fs => exact ⟨d, fs, ho⟩
  | _ => simp [Val.okind, Obj.kind] at hk

theorem union_of_held {c : Core} {frames : List Frame} {ex : List Val} (h : SX c frames ex) {a : Nat}
    (hm : Val.union a ∈ rootsOf c frames ++ ex) : ∃ d vr fs, c.heap.obj? a = some (.union d vr fs) := by
  obtain ⟨o, ho, hk⟩ := h.obj_of_held hm rfl
  cases o with
  | union d vr fs => exact ⟨d, vr, fs, ho⟩
  | _ => simp [Val.okind, Obj.kind] at hk

theorem tuple_of_held {c : Core} {frames : List Frame} {ex : List Val} (h : SX c frames ex) {a : Nat}
    (hm : Val.tuple a ∈ rootsOf c frames ++ ex) : ∃ es, c.heap.obj? a = some (.tuple es) := by
  obtain ⟨o, ho, hk⟩ := h.obj_of_held hm rfl
  cases o with
  | tuple es => exact ⟨es, ho⟩
  | _ => simp [Val.okind, Obj.kind] at hk

theorem clos_of_held {c : Core} {frames : List Frame} {ex : List Val} (h : SX c frames ex) {a : Nat}
    (hm : Val.clos a ∈ rootsOf c frames ++ ex) : ∃ fn caps, c.heap.obj? a = some (.clos fn caps) := by
  obtain ⟨o, ho, hk⟩ := h.obj_of_held hm rfl
  cases o with
  | clos fn caps => exact ⟨fn, caps, ho⟩
  | _ => simp [Val.okind, Obj.kind] at hk

theorem mem_ex_head {c : Core} {frames : List Frame} {v : Val} {ex : List Val} : v ∈ rootsOf c frames ++ (v :: ex) := by simp

theorem getD_mem {l : List Val} {i : Nat} (hi : i < l.length) (d : Val) : l.getD i d ∈ l := by
  rw [List.getD_eq_getElem?_getD, List.getElem?_eq_getElem hi]; simp

theorem alloc_family_ok (m : Module) (fr : Frame) (c : Core) (frames : List Frame) (is : Nat) (args : List Nat) (op : Opc)
    (hop : op ∈ [Opc.ARR_NEW, .STRUCT_NEW, .ARR_LITERAL, .STRUCT_LITERAL, .UNION_CONSTRUCT, .TUPLE_NEW, .CLOSURE_NEW])
    (h : OK c frames) : OK (execData' m fr c is op args).1 frames := by
  simp only [List.mem_cons, List.mem_nil_iff, or_false] at hop
  rcases hop with rfl | rfl | rfl | rfl | rfl | rfl | rfl
  · simp only [execData']; exact (h.alloc (.arr _ []) .arr (fun _ => rfl) (fun _ => rfl)).push
  · simp only [execData']; exact (h.alloc (.struct _ []) .struct (fun _ => rfl) (fun _ => rfl)).push
  · simp only [execData']; exact ((h.popN _).alloc (.arr _ _) .arr (fun _ => rfl) (fun _ => rfl)).push
  · simp only [execData']; exact ((h.popN _).alloc (.struct _ _) .struct (fun _ => rfl) (fun _ => rfl)).push
  · simp only [execData']; exact ((h.popN _).alloc (.union _ _ _) .union (fun _ => rfl) (fun _ => rfl)).push
  · simp only [execData']; exact ((h.popN _).alloc (.tuple _) .tuple (fun _ => rfl) (fun _ => rfl)).push
  · simp only [execData']
    split
    · have h0 : SX c frames ((Obj.clos (args.getD 0 0) (List.replicate (args.getD 1 0) Val.void)).kids ++ []) := by
        apply h.perm
        intro w hw
        simp only [Obj.kids, List.append_nil, count_replicate_void _ _ hw]; omega
      exact (h0.alloc _ .clos (fun _ => rfl) (fun _ => rfl)).push
    · exact ((h.popN _).alloc (.clos _ _) .clos (fun _ => rfl) (fun _ => rfl)).push

theorem getter_family_ok (m : Module) (fr : Frame) (c : Core) (frames : List Frame) (is : Nat) (args : List Nat) (op : Opc)
    (hop : op ∈ [Opc.STRUCT_GET, .UNION_FIELD, .TUPLE_GET, .UNION_TAG, .ARR_LEN])
    (h : OK c frames) : OK (execData' m fr c is op args).1 frames := by
  have h1 := h.pop
  simp only [List.mem_cons, List.mem_nil_iff, or_false] at hop
  rcases hop with rfl | rfl | rfl | rfl | rfl
  · simp only [execData']; split
    · rename_i a hv
      split
      · rename_i d fs ho
        split
        · exact h1.release
        · rename_i hlt
          exact ((h1.retainKid _ a _ ho (getD_mem (l := fs) (by omega) _)).perm (ex' := [c.pop.2, _]) (by levals)).release.push
      · rename_i hno
        obtain ⟨d, fs, ho⟩ := struct_of_held h1 (by rw [← hv]; exact mem_ex_head)
        exact absurd ho (hno d fs)
    · exact h1.release
  · simp only [execData']; split
    · rename_i a hv
      split
      · rename_i d vr fs ho
        split
        · exact h1.release
        · rename_i hlt
          exact ((h1.retainKid _ a _ ho (getD_mem (l := fs) (by omega) _)).perm (ex' := [c.pop.2, _]) (by levals)).release.push
      · rename_i hno
        obtain ⟨d, vr, fs, ho⟩ := union_of_held h1 (by rw [← hv]; exact mem_ex_head)
        exact absurd ho (hno d vr fs)
    · exact h1.release
  · simp only [execData']; split
    · rename_i a hv
      split
      · rename_i es ho
        split
        · exact h1.release
        · rename_i hlt
          exact ((h1.retainKid _ a _ ho (getD_mem (l := es) (by omega) _)).perm (ex' := [c.pop.2, _]) (by levals)).release.push
      · rename_i hno
        obtain ⟨es, ho⟩ := tuple_of_held h1 (by rw [← hv]; exact mem_ex_head)
        exact absurd ho (hno es)
    · exact h1.release
  · simp only [execData']; split
    · rename_i a hv
      split
      · exact h1.release.pushScalar (.int _) rfl
      · rename_i hno
        obtain ⟨d, vr, fs, ho⟩ := union_of_held h1 (by rw [← hv]; exact mem_ex_head)
        exact absurd ho (hno d vr fs)
    · exact h1.release
  · simp only [execData']; split
    · rename_i a hv
      split
      · exact h1.release.pushScalar (.int _) rfl
      · rename_i hno
        obtain ⟨et, es, ho⟩ := arr_of_held h1 (by rw [← hv]; exact mem_ex_head)
        exact absurd ho (hno et es)
    · exact h1.release

/-! ### containers that are modified in place -/

theorem SX.replaceKid {c : Core} {frames : List Frame} {ex : List Val} (a : Nat) (mkO : List Val → Obj)
    (hkids : ∀ l, (mkO l).kids = l) (hkind : ∀ l l', (mkO l).kind = (mkO l').kind)
    (K : List Val) (i : Nat) (hi : i < K.length) (inn K' : List Val)
    (h : SX c frames (inn ++ ex)) (ho : c.heap.obj? a = some (mkO K))
    (hheld : ∃ v ∈ rootsOf c frames ++ ex, v.addr? = some a)
    (hle : LeVals K' ((K.set i .void) ++ inn)) :
    (c.release (K.getD i .void)).heap.obj? a = some (mkO K) ∧
      SX { c.release (K.getD i .void) with heap := (c.release (K.getD i .void)).heap.setObj a (mkO K') } frames ex :=
  HX.replaceKid a mkO hkids hkind K i hi inn K' h ho hheld hle

theorem idxInRange_lt {idx : I64} {len : Nat} (h : idxInRange idx len = true) : idx.toNat < len := by
  unfold idxInRange at h
  simp only [Bool.and_eq_true, decide_eq_true_eq] at h
  unfold BitVec.toInt at h
  split at h <;> omega

theorem set_set_void_le (es : List Val) (i : Nat) (v : Val) (hi : i < es.length) : LeVals (es.set i v) ((es.set i .void) ++ [v]) := by
  intro w _
  have e := count_set_val (es.set i .void) i v .void (by simpa using hi) w
  rw [List.set_set] at e
  simp only [List.count_append]
  omega

theorem arr_push_ok (m : Module) (fr : Frame) (c : Core) (frames : List Frame) (is : Nat) (args : List Nat) (h : OK c frames) :
    OK (execData' m fr c is .ARR_PUSH args).1 frames := by
  have h2 := h.pop.pop
  simp only [execData']
  split
  · rename_i a hv
    split
    · rename_i et es ho
      have hk : a ∈ c.pop.1.pop.1.heap.keys := by
        obtain ⟨cell, hg, _⟩ := obj?_eq ho
        exact List.mem_map.mpr ⟨(a, cell), Heap.get?_some_mem hg, rfl⟩
      have s1 := (h2.perm (ex' := [c.pop.2] ++ [c.pop.1.pop.2]) (by levals)).setKids a _ (.arr et (es ++ [c.pop.2])) [c.pop.2] [] ho rfl
        (by intro w _; simp only [Obj.kids, List.count_append, List.count_nil]; omega)
      have s2 := s1.retainKid c.pop.2 a (.arr et (es ++ [c.pop.2])) (obj?_setObj _ _ _ hk) (by simp [Obj.kids])
      exact s2.release.push
    · rename_i hno
      obtain ⟨et, es, ho⟩ := arr_of_held h2 (by rw [← hv]; exact mem_ex_head)
      exact absurd ho (hno et es)
  · exact h2.release.release

theorem arr_pop_ok (m : Module) (fr : Frame) (c : Core) (frames : List Frame) (is : Nat) (args : List Nat) (h : OK c frames) :
    OK (execData' m fr c is .ARR_POP args).1 frames := by
  have h1 := h.pop
  simp only [execData']
  split
  · rename_i a hv
    split
    · rename_i et es ho
      split
      · exact h1.release
      · rename_i v hl
        obtain ⟨ys, hys⟩ := List.getLast?_eq_some_iff.mp hl
        have s1 := h1.setKids a _ (.arr et es.dropLast) [] [v] ho rfl
          (by intro w _; simp only [Obj.kids, hys, List.dropLast_concat, List.count_append, List.count_nil]; omega)
        exact s1.push.push
    · rename_i hno
      obtain ⟨et, es, ho⟩ := arr_of_held h1 (by rw [← hv]; exact mem_ex_head)
      exact absurd ho (hno et es)
  · exact h1.release

theorem arr_get_ok (m : Module) (fr : Frame) (c : Core) (frames : List Frame) (is : Nat) (args : List Nat) (h : OK c frames) :
    OK (execData' m fr c is .ARR_GET args).1 frames := by
  have h2 := h.pop.pop
  simp only [execData']
  split
  · rename_i a hv
    split
    · rename_i et es ho
      split
      · rename_i hin
        exact ((h2.retainKid _ a _ ho (getD_mem (l := es) (idxInRange_lt hin) _)).perm (ex' := [c.pop.1.pop.2, _, c.pop.2]) (by levals)).release.push.drop
      · exact h2.release.drop
    · rename_i hno
      obtain ⟨et, es, ho⟩ := arr_of_held h2 (by rw [← hv]; exact mem_ex_head)
      exact absurd ho (hno et es)
  · exact h2.release.drop

theorem arr_set_ok (m : Module) (fr : Frame) (c : Core) (frames : List Frame) (is : Nat) (args : List Nat) (h : OK c frames) :
    OK (execData' m fr c is .ARR_SET args).1 frames := by
  have h3 := h.pop.pop.pop
  simp only [execData']
  split
  · rename_i a hv
    split
    · rename_i et es ho
      split
      · rename_i hin
        have hi := idxInRange_lt hin
        obtain ⟨hobj, hfin⟩ := (h3.perm (ex' := [c.pop.2] ++ [c.pop.1.pop.1.pop.2, c.pop.1.pop.2]) (by levals)).replaceKid a (Obj.arr et)
          (fun _ => rfl) (fun _ _ => rfl) es _ hi [c.pop.2] (es.set (asIdx c.pop.1.pop.2).toNat c.pop.2) ho
          ⟨c.pop.1.pop.1.pop.2, by simp, by rw [hv]; rfl⟩ (set_set_void_le es _ _ hi)
        simp only [hobj]
        exact hfin.push.drop
      · exact (h3.perm (ex' := [c.pop.1.pop.1.pop.2, c.pop.2]) (by levals)).release.release
    · rename_i hno
      obtain ⟨et, es, ho⟩ := arr_of_held h3 (by rw [← hv]; exact mem_ex_head)
      exact absurd ho (hno et es)
  · exact (h3.perm (ex' := [c.pop.1.pop.1.pop.2, c.pop.2]) (by levals)).release.release

theorem arr_remove_ok (m : Module) (fr : Frame) (c : Core) (frames : List Frame) (is : Nat) (args : List Nat) (h : OK c frames) :
    OK (execData' m fr c is .ARR_REMOVE args).1 frames := by
  have h2 := h.pop.pop
  simp only [execData']
  split
  · rename_i a hv
    split
    · rename_i et es ho
      split
      · rename_i hin
        have hi := idxInRange_lt hin
        obtain ⟨hobj, hfin⟩ := (h2.perm (ex' := [] ++ [c.pop.1.pop.2, c.pop.2]) (by levals)).replaceKid a (Obj.arr et)
          (fun _ => rfl) (fun _ _ => rfl) es _ hi [] (es.eraseIdx (asIdx c.pop.2).toNat) ho
          ⟨c.pop.1.pop.2, by simp, by rw [hv]; rfl⟩ (by
            intro w hw
            have e1 := count_eraseIdx_val es _ .void hi w
            have e2 := count_set_void es _ hi w hw
            simp only [List.count_append, List.count_nil]; omega)
        simp only [hobj]
        exact hfin.push.drop
      · exact h2.release.drop
    · rename_i hno
      obtain ⟨et, es, ho⟩ := arr_of_held h2 (by rw [← hv]; exact mem_ex_head)
      exact absurd ho (hno et es)
  · exact h2.release.drop

theorem struct_set_ok (m : Module) (fr : Frame) (c : Core) (frames : List Frame) (is : Nat) (args : List Nat) (h : OK c frames) :
    OK (execData' m fr c is .STRUCT_SET args).1 frames := by
  have h2 := h.pop.pop
  simp only [execData']
  split
  · rename_i a hv
    split
    · rename_i d fs ho
      split
      · exact h2.release.release
      · rename_i hlt
        have hi : args.getD 0 0 < fs.length := by omega
        obtain ⟨hobj, hfin⟩ := (h2.perm (ex' := [c.pop.2] ++ [c.pop.1.pop.2]) (by levals)).replaceKid a (Obj.struct d)
          (fun _ => rfl) (fun _ _ => rfl) fs _ hi [c.pop.2] (fs.set (args.getD 0 0) c.pop.2) ho
          ⟨c.pop.1.pop.2, by simp, by rw [hv]; rfl⟩ (set_set_void_le fs _ _ hi)
        simp only [hobj]
        exact hfin.push
    · rename_i hno
      obtain ⟨d, fs, ho⟩ := struct_of_held h2 (by rw [← hv]; exact mem_ex_head)
      exact absurd ho (hno d fs)
  · exact h2.release.release

theorem match_tag_ok (m : Module) (fr : Frame) (c : Core) (frames : List Frame) (is : Nat) (args : List Nat) (h : OK c frames) :
    OK (execData' m fr c is .MATCH_TAG args).1 frames := by
  simp only [execData']
  split
  · rename_i a hv
    split
    · split
      · exact h.congr rfl rfl rfl
      · exact h
    · rename_i hno
      have hm : Val.union a ∈ rootsOf c frames ++ [] := by
        rcases peek_mem c with hp | hp
        · rw [hv] at hp; cases hp
        · rw [hv] at hp; simp [rootsOf, hp]
      obtain ⟨d, vr, fs, ho⟩ := union_of_held h hm
      exact absurd ho (hno d vr fs)
  · exact h

theorem slice_sub (es : List Val) (start stop : Nat) :
    ∀ v ∈ (if stop ≤ start then [] else (es.drop start).take (stop - start)), v ∈ es := by
  intro v hv
  split at hv
  · cases hv
  · exact List.mem_of_mem_drop (List.mem_of_mem_take hv)

theorem arr_slice_core (c3 : Core) (frames : List Frame) (a et : Nat) (es : List Val) (av sv ev : Val) (part : List Val)
    (h3 : SX c3 frames [av, sv, ev]) (hav : av = .arr a) (ho : c3.heap.obj? a = some (.arr et es)) (hsub : ∀ v ∈ part, v ∈ es) :
    OK ((({ c3 with heap := part.foldl Heap.retain (c3.heap.alloc (.arr et part)).1 } : Core).release av).push
      (.arr (c3.heap.alloc (.arr et part)).2)) frames := by
  have hlive : ∀ v ∈ part, ∀ b, v.addr? = some b → b ∈ c3.heap.keys := by
    intro v hvm b hb
    obtain ⟨cell, hg, he⟩ := obj?_eq ho
    exact HX.live_kid h3 (Heap.get?_some_mem hg) (by rw [he]; exact hsub v hvm) hb
  obtain ⟨e1, e2⟩ := foldl_retain_alloc (.arr et part) part c3.heap hlive h3.fresh
  rw [e1, ← e2]
  have s1 : SX { c3 with heap := part.foldl Heap.retain c3.heap } frames (part.reverse ++ [av, sv, ev]) :=
    HX.retainKids a (.arr et es) part hsub h3 ho
  have s2 := (s1.perm (ex' := (Obj.arr et part).kids ++ [av, sv, ev]) (by
    intro w _; simp only [Obj.kids, List.count_append, List.count_reverse]; omega)).alloc (.arr et part) .arr (fun _ => rfl) (fun _ => rfl)
  exact (s2.perm (ex' := [av, _, sv, ev]) (by levals)).release.push.drop.drop

theorem arr_slice_ok (m : Module) (fr : Frame) (c : Core) (frames : List Frame) (is : Nat) (args : List Nat) (h : OK c frames) :
    OK (execData' m fr c is .ARR_SLICE args).1 frames := by
  have h3 := h.pop.pop.pop
  simp only [execData']
  split
  · rename_i a hv
    split
    · rename_i et es ho
      exact arr_slice_core _ frames a et es _ _ _ _ h3 hv ho (slice_sub es _ _)
    · rename_i hno
      obtain ⟨et, es, ho⟩ := arr_of_held h3 (by rw [← hv]; exact mem_ex_head)
      exact absurd ho (hno et es)
  · exact h3.release.drop.drop

theorem store_upvalue_ok (m : Module) (fr : Frame) (c : Core) (frames : List Frame) (is : Nat) (args : List Nat) (h : OK c frames)
    (hfr : ∀ ca, fr.closure = some ca → Val.clos ca ∈ frames.filterMap (fun fr => fr.closure.map Val.clos)) :
    OK (execData' m fr c is .STORE_UPVALUE args).1 frames := by
  have h1 := h.pop
  simp only [execData']
  split
  · rename_i ca fn caps hcl hb
    split
    · rename_i hlt
      have ho : c.pop.1.heap.obj? ca = some (.clos fn caps) := by rw [hcl] at hb; simpa using hb
      obtain ⟨hobj, hfin⟩ := (h1.perm (ex' := [c.pop.2] ++ []) (by levals)).replaceKid ca (Obj.clos fn)
        (fun _ => rfl) (fun _ _ => rfl) caps _ hlt [c.pop.2] (caps.set (args.getD 1 0) c.pop.2) ho
        ⟨Val.clos ca, by simp [rootsOf, hfr ca hcl], rfl⟩ (set_set_void_le caps _ _ hlt)
      simp only [hobj]
      exact hfin
    · exact h1.release
  · exact h1.release

theorem cast_int_ok (m : Module) (fr : Frame) (c : Core) (frames : List Frame) (is : Nat) (args : List Nat) (h : OK c frames) :
    OK (execData' m fr c is .CAST_INT args).1 frames := by
  have h1 := h.pop
  simp only [execData']
  split
  · exact h1.push
  · exact h1.drop
  · exact h1.drop.pushScalar _ rfl
  · exact h1.drop.pushScalar _ rfl
  · exact h1.drop.pushScalar _ rfl
  · rename_i a hv
    split
    · exact h1.release.pushScalar _ rfl
    · rename_i hno
      obtain ⟨b, hb⟩ := strBytes_of_held h1 (a := a) (by rw [← hv]; exact mem_ex_head)
      rw [← hv] at hb
      rw [hb] at hno; cases hno
  · exact h1.release.pushScalar _ rfl

theorem cast_string_ok (m : Module) (fr : Frame) (c : Core) (frames : List Frame) (is : Nat) (args : List Nat) (h : OK c frames) :
    OK (execData' m fr c is .CAST_STRING args).1 frames := by
  have h1 := h.pop
  simp only [execData']
  split
  · exact h1.push
  · exact (h1.drop.strNew _).push
  · exact h1.drop
  · exact (h1.drop.strNew _).push
  · exact (h1.release.strNew _).push

theorem coerceEnum_count (a w : Val) (hw : w.addr? ≠ none) : [coerceEnum a].count w = [a].count w := by
  cases a <;> simp only [coerceEnum]
  rename_i x
  have h1 : ¬ (Val.int (i64 x) = w) := by intro e; subst e; exact hw rfl
  have h2 : ¬ (Val.enum x = w) := by intro e; subst e; exact hw rfl
  simp [List.count_cons, h1, h2]

theorem binArith_ok (c : Core) (frames : List Frame) (op : Opc) (h : OK c frames) : OK (binArith c op).1 frames := by
  have h2 := h.pop.pop
  unfold binArith
  simp only
  have hAB' : SX c.pop.1.pop.1 frames [coerceEnum c.pop.1.pop.2, coerceEnum c.pop.2] := by
    apply h2.perm
    intro w hw
    have e1 := coerceEnum_count c.pop.1.pop.2 w hw
    have e2 := coerceEnum_count c.pop.2 w hw
    simp only [List.count_cons, List.count_nil] at e1 e2 ⊢
    omega
  generalize coerceEnum c.pop.1.pop.2 = A at hAB' ⊢
  generalize coerceEnum c.pop.2 = B at hAB' ⊢
  split
  · exact hAB'.drop.drop.pushScalar _ rfl
  · split
    · exact hAB'.drop.drop
    · split
      · split
        · exact hAB'.drop.drop
        · split
          · exact hAB'.drop.drop
          · split
            · exact hAB'.release.release
            · exact hAB'.drop.drop
      · split
        · split
          · exact hAB'.drop.drop
          · split
            · exact hAB'.release.release
            · exact hAB'.drop.drop
        · split
          · rename_i x y _ _ _ _
            split
            · exact ((hAB'.strNew _).perm (ex' := [Val.str x, Val.str y, _]) (by levals)).release.release.push
            · rename_i hno
              obtain ⟨b1, hb1⟩ := strBytes_of_held hAB' (a := x) (by simp)
              obtain ⟨b2, hb2⟩ := strBytes_of_held hAB' (a := y) (by simp)
              exact absurd hb2 (hno b1 b2 hb1)
          · exact hAB'.release.release
          · exact hAB'.drop.drop

/-- **every data instruction keeps the heap invariant** (all of `execData'`: whatever the operands, the stack
    height and the heap are); in particular no handler ever reaches one of its `dangling ...` branches -/
theorem execData_ok (m : Module) (fr : Frame) (c : Core) (frames : List Frame) (is : Nat) (args : List Nat) (op : Opc)
    (hfr : ∀ ca, fr.closure = some ca → Val.clos ca ∈ frames.filterMap (fun fr => fr.closure.map Val.clos))
    (h : OK c frames) : OK (execData' m fr c is op args).1 frames := by
  cases op with
  | NOP => exact simple_ok m fr c frames is args _ (by decide) h
  | PUSH_I64 => exact simple_ok m fr c frames is args _ (by decide) h
  | PUSH_F64 => exact simple_ok m fr c frames is args _ (by decide) h
  | PUSH_BOOL => exact simple_ok m fr c frames is args _ (by decide) h
  | PUSH_STR => exact push_str_ok m fr c frames is args h
  | PUSH_VOID => exact simple_ok m fr c frames is args _ (by decide) h
  | PUSH_U8 => exact simple_ok m fr c frames is args _ (by decide) h
  | DUP => exact dup_ok m fr c frames is args h
  | POP => exact pop_ok m fr c frames is args _ (by decide) h
  | SWAP => exact swap_ok m fr c frames is args h
  | ROT3 => exact rot3_ok m fr c frames is args h
  | LOAD_LOCAL => exact load_local_ok m fr c frames is args h
  | STORE_LOCAL => exact store_local_ok m fr c frames is args h
  | LOAD_GLOBAL => exact load_global_ok m fr c frames is args h
  | STORE_GLOBAL => exact store_global_ok m fr c frames is args h
  | LOAD_UPVALUE => exact load_upvalue_ok m fr c frames is args h
  | STORE_UPVALUE => exact store_upvalue_ok m fr c frames is args h hfr
  | ADD => simp only [execData']; exact binArith_ok c frames _ h
  | SUB => simp only [execData']; exact binArith_ok c frames _ h
  | MUL => simp only [execData']; exact binArith_ok c frames _ h
  | DIV => simp only [execData']; exact binArith_ok c frames _ h
  | MOD => simp only [execData']; exact binArith_ok c frames _ h
  | NEG => exact pop1_family_ok m fr c frames is args _ (by decide) h
  | EQ => exact simple_ok m fr c frames is args _ (by decide) h
  | NE => exact simple_ok m fr c frames is args _ (by decide) h
  | LT => exact simple_ok m fr c frames is args _ (by decide) h
  | LE => exact simple_ok m fr c frames is args _ (by decide) h
  | GT => exact simple_ok m fr c frames is args _ (by decide) h
  | GE => exact simple_ok m fr c frames is args _ (by decide) h
  | AND => exact simple_ok m fr c frames is args _ (by decide) h
  | OR => exact simple_ok m fr c frames is args _ (by decide) h
  | NOT => exact pop1_family_ok m fr c frames is args _ (by decide) h
  | JMP => exact simple_ok m fr c frames is args _ (by decide) h
  | JMP_TRUE => exact jmp_cond_ok m fr c frames is args _ (by decide) h
  | JMP_FALSE => exact jmp_cond_ok m fr c frames is args _ (by decide) h
  | CALL => exact simple_ok m fr c frames is args _ (by decide) h
  | CALL_INDIRECT => exact simple_ok m fr c frames is args _ (by decide) h
  | RET => exact simple_ok m fr c frames is args _ (by decide) h
  | CALL_EXTERN => exact call_extern_ok m fr c frames is args h
  | CALL_MODULE => exact simple_ok m fr c frames is args _ (by decide) h
  | STR_LEN => exact pop1_family_ok m fr c frames is args _ (by decide) h
  | STR_CONCAT => exact str2_family_ok m fr c frames is args _ (by decide) h
  | STR_SUBSTR => exact str_substr_ok m fr c frames is args h
  | STR_CONTAINS => exact str2_family_ok m fr c frames is args _ (by decide) h
  | STR_EQ => exact str2_family_ok m fr c frames is args _ (by decide) h
  | STR_CHAR_AT => exact str2_family_ok m fr c frames is args _ (by decide) h
  | STR_FROM_INT => exact pop1_family_ok m fr c frames is args _ (by decide) h
  | STR_FROM_FLOAT => exact simple_ok m fr c frames is args _ (by decide) h
  | ARR_NEW => exact alloc_family_ok m fr c frames is args _ (by decide) h
  | ARR_PUSH => exact arr_push_ok m fr c frames is args h
  | ARR_POP => exact arr_pop_ok m fr c frames is args h
  | ARR_GET => exact arr_get_ok m fr c frames is args h
  | ARR_SET => exact arr_set_ok m fr c frames is args h
  | ARR_LEN => exact getter_family_ok m fr c frames is args _ (by decide) h
  | ARR_SLICE => exact arr_slice_ok m fr c frames is args h
  | ARR_REMOVE => exact arr_remove_ok m fr c frames is args h
  | ARR_LITERAL => exact alloc_family_ok m fr c frames is args _ (by decide) h
  | STRUCT_NEW => exact alloc_family_ok m fr c frames is args _ (by decide) h
  | STRUCT_GET => exact getter_family_ok m fr c frames is args _ (by decide) h
  | STRUCT_SET => exact struct_set_ok m fr c frames is args h
  | STRUCT_LITERAL => exact alloc_family_ok m fr c frames is args _ (by decide) h
  | UNION_CONSTRUCT => exact alloc_family_ok m fr c frames is args _ (by decide) h
  | UNION_TAG => exact getter_family_ok m fr c frames is args _ (by decide) h
  | UNION_FIELD => exact getter_family_ok m fr c frames is args _ (by decide) h
  | MATCH_TAG => exact match_tag_ok m fr c frames is args h
  | ENUM_VAL => exact simple_ok m fr c frames is args _ (by decide) h
  | TUPLE_NEW => exact alloc_family_ok m fr c frames is args _ (by decide) h
  | TUPLE_GET => exact getter_family_ok m fr c frames is args _ (by decide) h
  | HM_NEW => exact simple_ok m fr c frames is args _ (by decide) h
  | HM_GET => exact simple_ok m fr c frames is args _ (by decide) h
  | HM_SET => exact simple_ok m fr c frames is args _ (by decide) h
  | HM_HAS => exact simple_ok m fr c frames is args _ (by decide) h
  | HM_DELETE => exact simple_ok m fr c frames is args _ (by decide) h
  | HM_KEYS => exact simple_ok m fr c frames is args _ (by decide) h
  | HM_VALUES => exact simple_ok m fr c frames is args _ (by decide) h
  | HM_LEN => exact simple_ok m fr c frames is args _ (by decide) h
  | GC_RETAIN => exact gc_retain_ok m fr c frames is args h
  | GC_RELEASE => exact pop_ok m fr c frames is args _ (by decide) h
  | GC_SCOPE_ENTER => exact simple_ok m fr c frames is args _ (by decide) h
  | GC_SCOPE_EXIT => exact simple_ok m fr c frames is args _ (by decide) h
  | CAST_INT => exact cast_int_ok m fr c frames is args h
  | CAST_FLOAT => exact simple_ok m fr c frames is args _ (by decide) h
  | CAST_BOOL => exact pop1_family_ok m fr c frames is args _ (by decide) h
  | CAST_STRING => exact cast_string_ok m fr c frames is args h
  | TYPE_CHECK => exact pop1_family_ok m fr c frames is args _ (by decide) h
  | CLOSURE_NEW => exact alloc_family_ok m fr c frames is args _ (by decide) h
  | CLOSURE_CALL => exact simple_ok m fr c frames is args _ (by decide) h
  | PRINT => exact print_ok m fr c frames is args _ (by decide) h
  | ASSERT => exact pop1_family_ok m fr c frames is args _ (by decide) h
  | DEBUG_LINE => exact simple_ok m fr c frames is args _ (by decide) h
  | HALT => exact simple_ok m fr c frames is args _ (by decide) h
  | PRINTLN => exact print_ok m fr c frames is args _ (by decide) h
  | OPAQUE_NULL => exact simple_ok m fr c frames is args _ (by decide) h
  | OPAQUE_VALID => exact pop1_family_ok m fr c frames is args _ (by decide) h

end NanoVerif.C14
