import NanoVerif.Model.Crc
namespace NanoVerif

/-! ### the reflected polynomial has its top bit set (decided on the generated constant) -/

theorem crcP_msb : crcP.getLsbD 31 = true := by decide

theorem shr1_msb (c : BitVec 32) : (c >>> 1).getLsbD 31 = false := by
  simp [BitVec.getLsbD_ushiftRight]

theorem ge_of_bit31 (x : BitVec 32) (h : x.getLsbD 31 = true) : 2 ^ 31 ≤ x.toNat := by
  have : x.toNat.testBit 31 = true := by rw [BitVec.testBit_toNat]; exact h
  exact Nat.ge_two_pow_of_testBit this

theorem step0_bound (x : BitVec 32) (j : Nat) (hj : j ≤ 31) (h : (step0 x).toNat < 2 ^ j) :
    x.toNat < 2 ^ (j + 1) := by
  unfold step0 at h
  by_cases hb : x.getLsbD 0
  · simp only [hb, if_true] at h
    have h31 : ((x >>> 1) ^^^ crcP).getLsbD 31 = true := by
      simp [BitVec.getLsbD_xor, shr1_msb, crcP_msb]
    have := ge_of_bit31 _ h31
    have : 2 ^ j ≤ 2 ^ 31 := Nat.pow_le_pow_right (by omega) hj
    omega
  · simp only [hb] at h
    simp only [Bool.false_eq_true, if_false, BitVec.toNat_ushiftRight, Nat.shiftRight_eq_div_pow] at h
    rw [Nat.pow_succ]; omega

theorem back_bound : ∀ (bs : List Bool) (s : BitVec 32), bs.length ≤ 32 →
    feedBits s bs = 0#32 → s.toNat < 2 ^ bs.length := by
  intro bs
  induction bs with
  | nil => intro s _ h; simp [feedBits] at h; subst h; simp
  | cons b bs ih =>
    intro s hl h
    simp only [List.length_cons] at hl ⊢
    have h' : feedBits (feedBit s b) bs = 0#32 := by simpa [feedBits] using h
    have hb := ih (feedBit s b) (by omega) h'
    have hx := step0_bound (s ^^^ bitv b) bs.length (by omega) hb
    have hs : s = (s ^^^ bitv b) ^^^ bitv b := by
      rw [BitVec.xor_assoc, BitVec.xor_self, BitVec.xor_zero]
    rw [hs, BitVec.toNat_xor]
    have hbit : (bitv b).toNat < 2 ^ (bs.length + 1) := by
      have h1 : (bitv b).toNat ≤ 1 := by cases b <;> simp [bitv]
      have h2 : 2 ^ 1 ≤ 2 ^ (bs.length + 1) := Nat.pow_le_pow_right (by omega) (by omega)
      omega
    exact Nat.xor_lt_two_pow hx hbit

theorem step0_zero : step0 0#32 = 0#32 := by decide

theorem step0_one : step0 1#32 = crcP := by decide

theorem feed_zeros (k : Nat) : feedBits 0#32 (List.replicate k false) = 0#32 := by
  induction k with
  | zero => rfl
  | succ k ih => simp [List.replicate_succ, feedBits, feedBit, bitv, step0_zero] at ih ⊢; exact ih

theorem burst_nonzero (rest : List Bool) (h : rest.length ≤ 31) :
    feedBits 0#32 (true :: rest) ≠ 0#32 := by
  intro hz
  have h1 : feedBits crcP rest = 0#32 := by
    simpa [feedBits, feedBit, bitv, step0_one] using hz
  have hb := back_bound rest crcP (by omega) h1
  have hP : 2 ^ 31 ≤ crcP.toNat := ge_of_bit31 crcP crcP_msb
  have : 2 ^ rest.length ≤ 2 ^ 31 := Nat.pow_le_pow_right (by omega) h
  omega

theorem step0_linear (a b : BitVec 32) : step0 (a ^^^ b) = step0 a ^^^ step0 b := by
  unfold step0
  rw [BitVec.getLsbD_xor, BitVec.ushiftRight_xor_distrib]
  cases ha : a.getLsbD 0 <;> cases hb : b.getLsbD 0 <;> simp
  · ac_rfl
  · ac_rfl
  · rw [show (a >>> 1 ^^^ crcP ^^^ (b >>> 1 ^^^ crcP)) = (a >>> 1 ^^^ b >>> 1) ^^^ (crcP ^^^ crcP) by ac_rfl]
    simp

theorem step0_eq_zero (x : BitVec 32) (h0 : step0 x = 0#32) : x = 0#32 := by
  have hb := step0_bound x 0 (by omega) (by rw [h0]; simp)
  by_cases hl : x.getLsbD 0
  · exfalso
    have h31 : (step0 x).getLsbD 31 = true := by
      unfold step0; rw [if_pos hl, BitVec.getLsbD_xor, shr1_msb, crcP_msb]; rfl
    rw [h0] at h31; simp at h31
  · apply BitVec.eq_of_toNat_eq
    have ht : x.toNat.testBit 0 = false := by rw [BitVec.testBit_toNat]; simpa using hl
    have h2 : x.toNat < 2 := by simpa using hb
    have hm : x.toNat % 2 = 0 := by
      rw [Nat.testBit_zero] at ht; simpa using ht
    simp; omega

theorem step0_injective (a b : BitVec 32) (h : step0 a = step0 b) : a = b := by
  have h0 : step0 (a ^^^ b) = 0#32 := by rw [step0_linear, h, BitVec.xor_self]
  have hx := step0_eq_zero _ h0
  have : a = a ^^^ (a ^^^ b) := by rw [hx]; simp
  rw [this, ← BitVec.xor_assoc, BitVec.xor_self, BitVec.zero_xor]

theorem bitv_xor (x y : Bool) : bitv x ^^^ bitv (xor x y) = bitv y := by
  cases x <;> cases y <;> decide

theorem feed_linear : ∀ (m e : List Bool) (a b : BitVec 32), m.length = e.length →
    feedBits a m ^^^ feedBits b (List.zipWith xor m e) = feedBits (a ^^^ b) e := by
  intro m
  induction m with
  | nil => intro e a b h; cases e <;> simp_all [feedBits]
  | cons x xs ih =>
    intro e a b h
    cases e with
    | nil => simp at h
    | cons y ys =>
      simp only [List.length_cons, Nat.add_right_cancel_iff] at h
      simp only [feedBits, List.zipWith_cons_cons, List.foldl_cons]
      have := ih ys (feedBit a x) (feedBit b (xor x y)) h
      simp only [feedBits] at this
      rw [this]
      congr 1
      unfold feedBit
      rw [← step0_linear]
      congr 1
      rw [show a ^^^ bitv x ^^^ (b ^^^ bitv (xor x y)) = (a ^^^ b) ^^^ (bitv x ^^^ bitv (xor x y)) by ac_rfl, bitv_xor]

theorem feedBits_append (c : BitVec 32) (x y : List Bool) :
    feedBits c (x ++ y) = feedBits (feedBits c x) y := by simp [feedBits]

theorem feedBits_zeros_inj (j : Nat) (a : BitVec 32)
    (h : feedBits a (List.replicate j false) = 0#32) : a = 0#32 := by
  induction j generalizing a with
  | zero => simpa [feedBits] using h
  | succ j ih =>
    have : feedBits (feedBit a false) (List.replicate j false) = 0#32 := by
      simpa [List.replicate_succ, feedBits] using h
    have h1 := ih _ this
    have : step0 a = 0#32 := by simpa [feedBit, bitv] using h1
    exact step0_eq_zero a this

/-- Bit-level burst theorem: an error pattern whose non-zero span is ≤ 32 bits changes the
    register, whatever the message, the start value and the position. -/
theorem crc_bits_burst (c : BitVec 32) (m : List Bool) (k j : Nat) (rest : List Bool)
    (hr : rest.length ≤ 31)
    (hl : m.length = (List.replicate k false ++ (true :: rest) ++ List.replicate j false).length) :
    feedBits c (List.zipWith xor m (List.replicate k false ++ (true :: rest) ++ List.replicate j false))
      ≠ feedBits c m := by
  intro heq
  have hlin := feed_linear m _ c c hl
  rw [heq, BitVec.xor_self, BitVec.xor_self] at hlin
  rw [feedBits_append, feedBits_append, feed_zeros] at hlin
  have := feedBits_zeros_inj j _ hlin.symm
  exact burst_nonzero rest hr this

/-! ### bridge: the table-driven byte loop is the bit-serial machine -/

theorem stepN_linear (k : Nat) (a b : BitVec 32) : stepN k (a ^^^ b) = stepN k a ^^^ stepN k b := by
  induction k generalizing a b with
  | zero => rfl
  | succ k ih => simp only [stepN, step0_linear, ih]

theorem step0_of_lsb_false (x : BitVec 32) (h : x.getLsbD 0 = false) : step0 x = x >>> 1 := by
  unfold step0; simp only [h, Bool.false_eq_true, if_false]

theorem stepN_low_zero (k : Nat) (y : BitVec 32) (h : ∀ i, i < k → y.getLsbD i = false) :
    stepN k y = y >>> k := by
  induction k generalizing y with
  | zero => simp [stepN]
  | succ k ih =>
    simp only [stepN]
    rw [step0_of_lsb_false y (h 0 (by omega))]
    rw [ih (y >>> 1)]
    · rw [← BitVec.shiftRight_add, Nat.add_comm]
    · intro i hi
      rw [BitVec.getLsbD_ushiftRight]
      have := h (1 + i) (by omega)
      exact this

theorem bitv_eq (b : Bool) : bitv b = BitVec.ofNat 32 (if b then 1 else 0) := by
  cases b <;> rfl

theorem feedBits_bitsLSB (k : Nat) (hk : k ≤ 32) (c : BitVec 32) (n : Nat) (hn : n < 2 ^ k) :
    feedBits c (bitsLSB k n) = stepN k (c ^^^ BitVec.ofNat 32 n) := by
  induction k generalizing c n with
  | zero =>
    have : n = 0 := by simpa using hn
    subst this; simp [bitsLSB, feedBits, stepN]
  | succ k ih =>
    have hn2 : n / 2 < 2 ^ k := by rw [Nat.pow_succ] at hn; omega
    simp only [bitsLSB, feedBits, List.foldl_cons, stepN]
    have := ih (by omega) (feedBit c (n % 2 == 1)) (n / 2) hn2
    simp only [feedBits] at this
    rw [this]
    congr 1
    unfold feedBit
    -- step0 (c ^^^ n) = step0 (c ^^^ b0) ^^^ (n / 2)
    have hsplit : c ^^^ BitVec.ofNat 32 n
        = (c ^^^ bitv (n % 2 == 1)) ^^^ (BitVec.ofNat 32 n ^^^ bitv (n % 2 == 1)) := by
      rw [show (c ^^^ bitv (n % 2 == 1)) ^^^ (BitVec.ofNat 32 n ^^^ bitv (n % 2 == 1))
            = c ^^^ BitVec.ofNat 32 n ^^^ (bitv (n % 2 == 1) ^^^ bitv (n % 2 == 1)) by ac_rfl]
      simp
    have hlsb : (BitVec.ofNat 32 n ^^^ bitv (n % 2 == 1)).getLsbD 0 = false := by
      rw [BitVec.getLsbD_xor, BitVec.getLsbD_ofNat, Nat.testBit_zero]
      cases h : (n % 2 == 1) <;> simp [bitv, h] <;> simp_all
    have hn32 : n < 2 ^ 32 := Nat.lt_of_lt_of_le hn (Nat.pow_le_pow_right (by omega) hk)
    have hn232 : n / 2 < 2 ^ 32 := by omega
    have hshift : (BitVec.ofNat 32 n ^^^ bitv (n % 2 == 1)) >>> 1 = BitVec.ofNat 32 (n / 2) := by
      apply BitVec.eq_of_toNat_eq
      simp only [BitVec.toNat_ushiftRight, BitVec.toNat_xor, BitVec.toNat_ofNat, Nat.shiftRight_eq_div_pow,
        Nat.pow_one, Nat.mod_eq_of_lt hn32, Nat.mod_eq_of_lt hn232, Nat.xor_div_two]
      cases h : (n % 2 == 1) <;> simp [bitv]
    have key : step0 (c ^^^ BitVec.ofNat 32 n)
        = step0 (c ^^^ bitv (n % 2 == 1)) ^^^ BitVec.ofNat 32 (n / 2) := by
      rw [hsplit, step0_linear (c ^^^ bitv (n % 2 == 1)), step0_of_lsb_false _ hlsb, hshift]
    exact key.symm

theorem ff_getLsbD (i : Nat) : (0xFF#32).getLsbD i = (decide (i < 32) && decide (i < 8)) := by
  rw [show (0xFF#32) = BitVec.ofNat 32 (2 ^ 8 - 1) from rfl, BitVec.getLsbD_ofNat, Nat.testBit_two_pow_sub_one]

theorem split_low8 (x : BitVec 32) : x = (x &&& 0xFF#32) ^^^ ((x >>> 8) <<< 8) := by
  apply BitVec.eq_of_getLsbD_eq
  intro i hi
  rw [BitVec.getLsbD_xor, BitVec.getLsbD_and, BitVec.getLsbD_shiftLeft, BitVec.getLsbD_ushiftRight, ff_getLsbD]
  by_cases h8 : i < 8
  · simp [h8, hi]
  · have : 8 + (i - 8) = i := by omega
    simp [h8, hi, this]

theorem low8_lsb (x : BitVec 32) (i : Nat) (h : i < 8) : ((x >>> 8) <<< 8).getLsbD i = false := by
  rw [BitVec.getLsbD_shiftLeft]; simp [h]

theorem shl8_shr8 (y : BitVec 32) : ((y >>> 8) <<< 8) >>> 8 = y >>> 8 := by
  apply BitVec.eq_of_getLsbD_eq
  intro i hi
  simp only [BitVec.getLsbD_ushiftRight, BitVec.getLsbD_shiftLeft]
  by_cases h : 8 + i < 32
  · have : 8 + i - 8 = i := by omega
    simp [h, this]
  · have h1 : (y.getLsbD (8 + i)) = false := by
      apply BitVec.getLsbD_of_ge; omega
    simp [h, h1]

/-- eight shift/xor steps = the table-driven update (this is what `crc32_init` precomputes) -/
theorem stepN8_table (x : BitVec 32) :
    stepN 8 x = (x >>> 8) ^^^ crcTableEntry (x &&& 0xFF#32).toNat := by
  have h := split_low8 x
  have : stepN 8 x = stepN 8 (x &&& 0xFF#32) ^^^ stepN 8 ((x >>> 8) <<< 8) := by
    rw [← stepN_linear, ← h]
  rw [this, stepN_low_zero 8 _ (fun i hi => low8_lsb x i hi), shl8_shr8]
  unfold crcTableEntry
  rw [BitVec.ofNat_toNat, BitVec.setWidth_eq, BitVec.xor_comm]

theorem crcUpdate_eq_feedBits (c : BitVec 32) (b : UInt8) :
    crcUpdate c b = feedBits c (bitsLSB 8 b.toNat) := by
  have hb := UInt8.toNat_lt b
  rw [feedBits_bitsLSB 8 (by omega) c b.toNat (by simpa using hb), stepN8_table]
  unfold crcUpdate
  congr 1
  apply BitVec.eq_of_toNat_eq
  simp only [BitVec.toNat_ushiftRight, BitVec.toNat_xor, BitVec.toNat_ofNat, Nat.shiftRight_eq_div_pow]
  have h1 : b.toNat % 2 ^ 32 = b.toNat := Nat.mod_eq_of_lt (by omega)
  rw [h1, Nat.xor_div_two_pow]
  have h2 : b.toNat / 2 ^ 8 = 0 := Nat.div_eq_of_lt (by simpa using hb)
  rw [h2]; simp

theorem crcRaw_eq_feedBits (c : BitVec 32) (bs : Bytes) : crcRaw c bs = feedBits c (bitsOf bs) := by
  induction bs generalizing c with
  | nil => rfl
  | cons b bs ih =>
    simp only [crcRaw, List.foldl_cons, bitsOf, List.flatMap_cons]
    rw [feedBits_append, ← crcUpdate_eq_feedBits]
    exact ih _

theorem bitsLSB_length (k n : Nat) : (bitsLSB k n).length = k := by
  induction k generalizing n with
  | zero => rfl
  | succ k ih => simp [bitsLSB, ih]

theorem bitsOf_length (bs : Bytes) : (bitsOf bs).length = 8 * bs.length := by
  induction bs with
  | nil => rfl
  | cons b bs ih => simp only [bitsOf, List.flatMap_cons, List.length_append, bitsLSB_length, List.length_cons] at *; omega

theorem bitsLSB_xor (k m n : Nat) :
    bitsLSB k (m ^^^ n) = List.zipWith xor (bitsLSB k m) (bitsLSB k n) := by
  induction k generalizing m n with
  | zero => rfl
  | succ k ih =>
    simp only [bitsLSB, List.zipWith_cons_cons, Nat.xor_div_two, ih]
    congr 1
    have := @Nat.xor_mod_two_eq_one m n
    rcases Nat.mod_two_eq_zero_or_one m with hm | hm <;> rcases Nat.mod_two_eq_zero_or_one n with hn | hn <;>
      rcases Nat.mod_two_eq_zero_or_one (m ^^^ n) with hx | hx <;> simp_all

theorem bitsOf_xor (a e : Bytes) (h : a.length = e.length) :
    bitsOf (xorBytes a e) = List.zipWith xor (bitsOf a) (bitsOf e) := by
  induction a generalizing e with
  | nil => cases e <;> simp_all [bitsOf, xorBytes]
  | cons x xs ih =>
    cases e with
    | nil => simp at h
    | cons y ys =>
      simp only [List.length_cons, Nat.add_right_cancel_iff] at h
      simp only [xorBytes, List.zipWith_cons_cons, bitsOf, List.flatMap_cons]
      rw [List.zipWith_append (by simp [bitsLSB_length])]
      congr 1
      · rw [UInt8.toNat_xor, bitsLSB_xor]
      · exact ih ys h

end NanoVerif
