import NanoVerif.Lemmas.Nvm
import NanoVerif.Lemmas.NvmSafe
namespace NanoVerif

/-! ### reading back what was written -/

theorem slice?_mid (data x b y : Bytes) (off n : Nat) (hd : data = x ++ b ++ y) (ho : off = x.length)
    (hn : n = b.length) : slice? data off n = some b := by
  subst hd ho hn
  unfold slice?
  rw [if_pos (by simp)]
  congr 1
  rw [List.append_assoc, List.drop_left, List.take_left]

theorem rd_mid (data x b y : Bytes) (off n : Nat) (hd : data = x ++ b ++ y) (ho : off = x.length)
    (hn : n = b.length) : rd data off n = .ok (leVal b) := by
  unfold rd; rw [slice?_mid data x b y off n hd ho hn]

theorem rdBytes_mid (data x b y : Bytes) (off n : Nat) (hd : data = x ++ b ++ y) (ho : off = x.length)
    (hn : n = b.length) : rdBytes data off n = .ok b := by
  unfold rdBytes; rw [slice?_mid data x b y off n hd ho hn]

theorem rd_le (data x y : Bytes) (off n v : Nat) (hv : v < 256 ^ n)
    (hd : data = x ++ leBytes n v ++ y) (ho : off = x.length) : rd data off n = .ok v := by
  rw [rd_mid data x (leBytes n v) y off n hd ho (by simp), leVal_leBytes_of_lt n v hv]

/-! ### string pool -/

theorem serStrings_cons (s : Bytes) (ss : List Bytes) :
    serStrings (s :: ss) = leBytes 4 s.length ++ s ++ serStrings ss := by
  simp [serStrings]

/-- the string-pool parser recovers exactly the strings that were written, through `nvm_add_string` -/
theorem parseStrings_ser (pre post : Bytes) (ss : List Bytes) :
    ∀ (done : Bytes) (acc : List Bytes) (fuel : Nat),
      (done ++ serStrings ss).length + 4 < 4294967296 →
      (∀ s ∈ ss, s.length < 4294967296) → ss.length < fuel →
      parseStrings (pre ++ (done ++ serStrings ss) ++ post) pre.length (done ++ serStrings ss).length fuel done.length acc
        = .ok (ss.foldl (fun a s => (addString a s).1) acc) := by
  induction ss with
  | nil =>
    intro done acc fuel hsz _ hf
    cases fuel with
    | zero => omega
    | succ fuel =>
      simp only [parseStrings, serStrings, List.flatMap_nil, List.append_nil, List.foldl_nil]
      have : ¬ (u32 (done.length + 4) ≤ done.length) := by
        rw [u32_of_lt (by simp [serStrings] at hsz; omega)]; omega
      rw [if_neg this]
  | cons s ss ih =>
    intro done acc fuel hsz hlen hf
    cases fuel with
    | zero => simp at hf
    | succ fuel =>
      have hs := hlen s (by simp)
      rw [serStrings_cons] at hsz ⊢
      simp only [parseStrings]
      have hsize : (done ++ (leBytes 4 s.length ++ s ++ serStrings ss)).length
          = done.length + 4 + s.length + (serStrings ss).length := by simp; omega
      rw [hsize] at hsz ⊢
      have h1 : u32 (done.length + 4) ≤ done.length + 4 + s.length + (serStrings ss).length := by
        rw [u32_of_lt (by omega)]; omega
      rw [if_pos h1]
      have hrd : rd (pre ++ (done ++ (leBytes 4 s.length ++ s ++ serStrings ss)) ++ post) (pre.length + done.length) 4
          = .ok s.length :=
        rd_le _ (pre ++ done) (s ++ serStrings ss ++ post) _ 4 s.length (by simpa using hs)
          (by simp [List.append_assoc]) (by simp)
      rw [hrd]
      simp only [bind, Except.bind]
      have h2 : ¬ (s.length > done.length + 4 + s.length + (serStrings ss).length - (done.length + 4)) := by omega
      rw [if_neg h2]
      have hrb : rdBytes (pre ++ (done ++ (leBytes 4 s.length ++ s ++ serStrings ss)) ++ post)
          (pre.length + (done.length + 4)) s.length = .ok s :=
        rdBytes_mid _ (pre ++ done ++ leBytes 4 s.length) s (serStrings ss ++ post) _ _
          (by simp [List.append_assoc]) (by simp) rfl
      rw [hrb]
      simp only []
      have hre : pre ++ (done ++ (leBytes 4 s.length ++ s ++ serStrings ss)) ++ post
          = pre ++ ((done ++ leBytes 4 s.length ++ s) ++ serStrings ss) ++ post := by
        simp [List.append_assoc]
      have hl2 : done.length + 4 + s.length + (serStrings ss).length
          = ((done ++ leBytes 4 s.length ++ s) ++ serStrings ss).length := by simp; omega
      have hp2 : done.length + 4 + s.length = (done ++ leBytes 4 s.length ++ s).length := by simp; omega
      rw [hre, hl2, hp2]
      rw [ih (done ++ leBytes 4 s.length ++ s) (addString acc s).1 fuel (by rw [← hl2]; exact hsz)
        (fun t ht => hlen t (List.mem_cons_of_mem _ ht)) (by simpa using hf)]
      simp

/-! ### function table -/

def FnEntry.wf (f : FnEntry) : Prop :=
  f.nameIdx < 256 ^ 4 ∧ f.arity < 256 ^ 2 ∧ f.codeOffset < 256 ^ 4 ∧ f.codeLength < 256 ^ 4 ∧
    f.localCount < 256 ^ 2 ∧ f.upvalueCount < 256 ^ 2

theorem serFn_length (f : FnEntry) : (serFn f).length = 18 := by simp [serFn]

theorem parseFunctions_ser (pre post : Bytes) (hfe : Gen.functionEntrySize = 18) (fs : List FnEntry) :
    ∀ (done : Bytes) (acc : List FnEntry) (fuel : Nat),
      (done ++ fs.flatMap serFn).length + 18 < 4294967296 →
      (∀ f ∈ fs, f.wf) → fs.length < fuel →
      parseFunctions (pre ++ (done ++ fs.flatMap serFn) ++ post) pre.length (done ++ fs.flatMap serFn).length fuel done.length acc
        = .ok (acc ++ fs) := by
  induction fs with
  | nil =>
    intro done acc fuel hsz _ hf
    cases fuel with
    | zero => omega
    | succ fuel =>
      simp only [parseFunctions, List.flatMap_nil, List.append_nil, hfe]
      have : ¬ (u32 (done.length + 18) ≤ done.length) := by
        rw [u32_of_lt (by simp at hsz; omega)]; omega
      rw [if_neg this]
  | cons f fs ih =>
    intro done acc fuel hsz hwf hf
    cases fuel with
    | zero => simp at hf
    | succ fuel =>
      obtain ⟨w1, w2, w3, w4, w5, w6⟩ := hwf f (by simp)
      simp only [List.flatMap_cons] at hsz ⊢
      simp only [parseFunctions, hfe]
      have hsize : (done ++ (serFn f ++ fs.flatMap serFn)).length = done.length + 18 + (fs.flatMap serFn).length := by
        simp [serFn_length]; omega
      rw [hsize] at hsz ⊢
      rw [if_pos (by rw [u32_of_lt (by omega)]; omega)]
      have e : ∀ k, pre.length + done.length + k = (pre.length + done.length) + k := fun _ => rfl
      have r1 : rd (pre ++ (done ++ (serFn f ++ fs.flatMap serFn)) ++ post) (pre.length + done.length) 4 = .ok f.nameIdx :=
        rd_le _ (pre ++ done) (leBytes 2 f.arity ++ leBytes 4 f.codeOffset ++ leBytes 4 f.codeLength ++ leBytes 2 f.localCount
          ++ leBytes 2 f.upvalueCount ++ fs.flatMap serFn ++ post) _ 4 _ w1 (by simp [serFn, List.append_assoc]) (by simp)
      have r2 : rd (pre ++ (done ++ (serFn f ++ fs.flatMap serFn)) ++ post) (pre.length + done.length + 4) 2 = .ok f.arity :=
        rd_le _ (pre ++ done ++ leBytes 4 f.nameIdx) (leBytes 4 f.codeOffset ++ leBytes 4 f.codeLength ++ leBytes 2 f.localCount
          ++ leBytes 2 f.upvalueCount ++ fs.flatMap serFn ++ post) _ 2 _ w2 (by simp [serFn, List.append_assoc]) (by simp; omega)
      have r3 : rd (pre ++ (done ++ (serFn f ++ fs.flatMap serFn)) ++ post) (pre.length + done.length + 6) 4 = .ok f.codeOffset :=
        rd_le _ (pre ++ done ++ leBytes 4 f.nameIdx ++ leBytes 2 f.arity) (leBytes 4 f.codeLength ++ leBytes 2 f.localCount
          ++ leBytes 2 f.upvalueCount ++ fs.flatMap serFn ++ post) _ 4 _ w3 (by simp [serFn, List.append_assoc]) (by simp; omega)
      have r4 : rd (pre ++ (done ++ (serFn f ++ fs.flatMap serFn)) ++ post) (pre.length + done.length + 10) 4 = .ok f.codeLength :=
        rd_le _ (pre ++ done ++ leBytes 4 f.nameIdx ++ leBytes 2 f.arity ++ leBytes 4 f.codeOffset) (leBytes 2 f.localCount
          ++ leBytes 2 f.upvalueCount ++ fs.flatMap serFn ++ post) _ 4 _ w4 (by simp [serFn, List.append_assoc]) (by simp; omega)
      have r5 : rd (pre ++ (done ++ (serFn f ++ fs.flatMap serFn)) ++ post) (pre.length + done.length + 14) 2 = .ok f.localCount :=
        rd_le _ (pre ++ done ++ leBytes 4 f.nameIdx ++ leBytes 2 f.arity ++ leBytes 4 f.codeOffset ++ leBytes 4 f.codeLength)
          (leBytes 2 f.upvalueCount ++ fs.flatMap serFn ++ post) _ 2 _ w5 (by simp [serFn, List.append_assoc]) (by simp; omega)
      have r6 : rd (pre ++ (done ++ (serFn f ++ fs.flatMap serFn)) ++ post) (pre.length + done.length + 16) 2 = .ok f.upvalueCount :=
        rd_le _ (pre ++ done ++ leBytes 4 f.nameIdx ++ leBytes 2 f.arity ++ leBytes 4 f.codeOffset ++ leBytes 4 f.codeLength
          ++ leBytes 2 f.localCount) (fs.flatMap serFn ++ post) _ 2 _ w6 (by simp [serFn, List.append_assoc]) (by simp; omega)
      rw [r1, r2, r3, r4, r5, r6]
      simp only [bind, Except.bind]
      have hre : pre ++ (done ++ (serFn f ++ fs.flatMap serFn)) ++ post
          = pre ++ ((done ++ serFn f) ++ fs.flatMap serFn) ++ post := by simp [List.append_assoc]
      have hl2 : done.length + 18 + (fs.flatMap serFn).length = ((done ++ serFn f) ++ fs.flatMap serFn).length := by
        simp [serFn_length]; omega
      have hp2 : done.length + 18 = (done ++ serFn f).length := by simp [serFn_length]
      rw [hre, hl2, hp2]
      rw [ih (done ++ serFn f) _ fuel (by rw [← hl2]; exact hsz) (fun t ht => hwf t (List.mem_cons_of_mem _ ht)) (by simpa using hf)]
      cases f
      simp

/-! ### import table -/

def ImportEntry.wf (i : ImportEntry) : Prop :=
  i.moduleNameIdx < 256 ^ 4 ∧ i.functionNameIdx < 256 ^ 4 ∧ i.paramCount < 256 ^ 2 ∧ i.returnType < 256

/-- what an import entry looks like after a round trip: the parameter table is materialised
    (zeros when it was absent) and is absent exactly when `param_count = 0` -/
def canonImport (i : ImportEntry) : ImportEntry :=
  { i with paramTypes := if i.paramCount > 0 then some (importParams i) else none }

theorem importParams_length (i : ImportEntry) : (importParams i).length = i.paramCount := by
  unfold importParams
  cases h : i.paramTypes with
  | none => simp
  | some pt => simp; omega

theorem serImport_length (i : ImportEntry) : (serImport i).length = 11 + i.paramCount := by
  simp [serImport, importParams_length]; omega

theorem parseImports_ser (pre post : Bytes) (hie : Gen.importEntryBaseSize = 11) (is : List ImportEntry) :
    ∀ (done : Bytes) (acc : List ImportEntry) (fuel : Nat),
      (done ++ is.flatMap serImport).length + 65600 < 4294967296 →
      (∀ i ∈ is, i.wf) → is.length < fuel →
      parseImports (pre ++ (done ++ is.flatMap serImport) ++ post) pre.length (done ++ is.flatMap serImport).length fuel done.length acc
        = .ok (acc ++ is.map canonImport) := by
  induction is with
  | nil =>
    intro done acc fuel hsz _ hf
    cases fuel with
    | zero => omega
    | succ fuel =>
      simp only [parseImports, List.flatMap_nil, List.append_nil, hie, List.map_nil]
      have : ¬ (u32 (done.length + 11) ≤ done.length) := by
        rw [u32_of_lt (by simp at hsz; omega)]; omega
      rw [if_neg this]
  | cons i is ih =>
    intro done acc fuel hsz hwf hf
    cases fuel with
    | zero => simp at hf
    | succ fuel =>
      obtain ⟨w1, w2, w3, w4⟩ := hwf i (by simp)
      have hpl := importParams_length i
      simp only [List.flatMap_cons] at hsz ⊢
      simp only [parseImports, hie]
      have hsize : (done ++ (serImport i ++ is.flatMap serImport)).length
          = done.length + 11 + i.paramCount + (is.flatMap serImport).length := by
        simp [serImport_length]; omega
      rw [hsize] at hsz ⊢
      rw [if_pos (by rw [u32_of_lt (by omega)]; omega)]
      have r1 : rd (pre ++ (done ++ (serImport i ++ is.flatMap serImport)) ++ post) (pre.length + done.length) 4 = .ok i.moduleNameIdx :=
        rd_le _ (pre ++ done) (leBytes 4 i.functionNameIdx ++ leBytes 2 i.paramCount ++ [UInt8.ofNat i.returnType] ++ importParams i
          ++ is.flatMap serImport ++ post) _ 4 _ w1 (by simp [serImport, List.append_assoc]) (by simp)
      have r2 : rd (pre ++ (done ++ (serImport i ++ is.flatMap serImport)) ++ post) (pre.length + done.length + 4) 4 = .ok i.functionNameIdx :=
        rd_le _ (pre ++ done ++ leBytes 4 i.moduleNameIdx) (leBytes 2 i.paramCount ++ [UInt8.ofNat i.returnType] ++ importParams i
          ++ is.flatMap serImport ++ post) _ 4 _ w2 (by simp [serImport, List.append_assoc]) (by simp; omega)
      have r3 : rd (pre ++ (done ++ (serImport i ++ is.flatMap serImport)) ++ post) (pre.length + done.length + 8) 2 = .ok i.paramCount :=
        rd_le _ (pre ++ done ++ leBytes 4 i.moduleNameIdx ++ leBytes 4 i.functionNameIdx) ([UInt8.ofNat i.returnType] ++ importParams i
          ++ is.flatMap serImport ++ post) _ 2 _ w3 (by simp [serImport, List.append_assoc]) (by simp; omega)
      have r4 : rd (pre ++ (done ++ (serImport i ++ is.flatMap serImport)) ++ post) (pre.length + done.length + 10) 1 = .ok i.returnType := by
        have := rd_mid (pre ++ (done ++ (serImport i ++ is.flatMap serImport)) ++ post)
          (pre ++ done ++ leBytes 4 i.moduleNameIdx ++ leBytes 4 i.functionNameIdx ++ leBytes 2 i.paramCount) [UInt8.ofNat i.returnType]
          (importParams i ++ is.flatMap serImport ++ post) (pre.length + done.length + 10) 1
          (by simp [serImport, List.append_assoc]) (by simp; omega) rfl
        rw [this]
        simp only [leVal, Nat.mul_zero, Nat.add_zero]
        congr 1
        simp [UInt8.toNat_ofNat']; omega
      rw [r1, r2, r3, r4]
      simp only [bind, Except.bind]
      have hnw : ¬ (u32 (done.length + 11 + i.paramCount) > done.length + 11 + i.paramCount + (is.flatMap serImport).length) := by
        rw [u32_of_lt (by omega)]; omega
      rw [if_neg hnw]
      have r5 : rdBytes (pre ++ (done ++ (serImport i ++ is.flatMap serImport)) ++ post) (pre.length + (done.length + 11)) i.paramCount
          = .ok (importParams i) :=
        rdBytes_mid _ (pre ++ done ++ leBytes 4 i.moduleNameIdx ++ leBytes 4 i.functionNameIdx ++ leBytes 2 i.paramCount ++ [UInt8.ofNat i.returnType])
          (importParams i) (is.flatMap serImport ++ post) _ _ (by simp [serImport, List.append_assoc]) (by simp) hpl.symm
      rw [r5]
      simp only []
      have hre : pre ++ (done ++ (serImport i ++ is.flatMap serImport)) ++ post
          = pre ++ ((done ++ serImport i) ++ is.flatMap serImport) ++ post := by simp [List.append_assoc]
      have hl2 : done.length + 11 + i.paramCount + (is.flatMap serImport).length = ((done ++ serImport i) ++ is.flatMap serImport).length := by
        simp [serImport_length]; omega
      have hp2 : done.length + 11 + i.paramCount = (done ++ serImport i).length := by simp [serImport_length]; omega
      rw [hre, hl2, hp2]
      rw [ih (done ++ serImport i) _ fuel (by rw [← hl2]; exact hsz) (fun t ht => hwf t (List.mem_cons_of_mem _ ht)) (by simpa using hf)]
      simp [canonImport]

end NanoVerif
