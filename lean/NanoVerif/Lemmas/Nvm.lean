import NanoVerif.Model.Nvm
import NanoVerif.Lemmas.Crc
namespace NanoVerif

/-! ### checked reads are stable under appending bytes -/

theorem slice?_append {f : Bytes} (t : Bytes) {off n : Nat} {r : Bytes}
    (h : slice? f off n = some r) : slice? (f ++ t) off n = some r := by
  unfold slice? at *
  split at h
  · rename_i hle
    cases h
    have : off + n ≤ (f ++ t).length := by simp; omega
    rw [if_pos this]
    congr 1
    rw [List.drop_append_of_le_length (by omega)]
    rw [List.take_append_of_le_length (by simp; omega)]
  · cases h

theorem rd_append {f : Bytes} (t : Bytes) {off n v : Nat} (h : rd f off n = .ok v) :
    rd (f ++ t) off n = .ok v := by
  unfold rd at *
  cases hs : slice? f off n with
  | none => simp [hs] at h
  | some bs => rw [slice?_append t hs]; simpa [hs] using h

theorem rdBytes_append {f : Bytes} (t : Bytes) {off n : Nat} {v : Bytes} (h : rdBytes f off n = .ok v) :
    rdBytes (f ++ t) off n = .ok v := by
  unfold rdBytes at *
  cases hs : slice? f off n with
  | none => simp [hs] at h
  | some bs => rw [slice?_append t hs]; simpa [hs] using h

/-- inversion of a successful monadic bind in `Except` -/
theorem except_bind_ok {ε α β : Type} {x : Except ε α} {f : α → Except ε β} {b : β}
    (h : (x >>= f) = .ok b) : ∃ a, x = .ok a ∧ f a = .ok b := by
  cases x with
  | error e => cases h
  | ok a => exact ⟨a, rfl, h⟩

theorem parseStrings_append (f t : Bytes) (base secSize fuel pos : Nat) (ss r : List Bytes)
    (h : parseStrings f base secSize fuel pos ss = .ok r) :
    parseStrings (f ++ t) base secSize fuel pos ss = .ok r := by
  induction fuel generalizing pos ss with
  | zero => simpa [parseStrings] using h
  | succ fuel ih =>
    simp only [parseStrings] at h ⊢
    split
    · rename_i hc
      rw [if_pos hc] at h
      obtain ⟨slen, h1, h⟩ := except_bind_ok h
      rw [rd_append t h1]
      simp only [bind, Except.bind] at h ⊢
      split
      · rename_i hs; rw [if_pos hs] at h; exact h
      · rename_i hs
        rw [if_neg hs] at h
        obtain ⟨s, h2, h⟩ := except_bind_ok h
        rw [rdBytes_append t h2]
        exact ih _ _ h
    · rename_i hc; rw [if_neg hc] at h; exact h

theorem parseFunctions_append (f t : Bytes) (base secSize fuel pos : Nat) (fs r : List FnEntry)
    (h : parseFunctions f base secSize fuel pos fs = .ok r) :
    parseFunctions (f ++ t) base secSize fuel pos fs = .ok r := by
  induction fuel generalizing pos fs with
  | zero => simpa [parseFunctions] using h
  | succ fuel ih =>
    simp only [parseFunctions] at h ⊢
    split
    · rename_i hc
      rw [if_pos hc] at h
      obtain ⟨a1, h1, h⟩ := except_bind_ok h
      obtain ⟨a2, h2, h⟩ := except_bind_ok h
      obtain ⟨a3, h3, h⟩ := except_bind_ok h
      obtain ⟨a4, h4, h⟩ := except_bind_ok h
      obtain ⟨a5, h5, h⟩ := except_bind_ok h
      obtain ⟨a6, h6, h⟩ := except_bind_ok h
      rw [rd_append t h1, rd_append t h2, rd_append t h3, rd_append t h4, rd_append t h5, rd_append t h6]
      exact ih _ _ h
    · rename_i hc; rw [if_neg hc] at h; exact h

theorem parseDebug_append (f t : Bytes) (base secSize fuel pos : Nat) (ds r : List DebugEntry)
    (h : parseDebug f base secSize fuel pos ds = .ok r) :
    parseDebug (f ++ t) base secSize fuel pos ds = .ok r := by
  induction fuel generalizing pos ds with
  | zero => simpa [parseDebug] using h
  | succ fuel ih =>
    simp only [parseDebug] at h ⊢
    split
    · rename_i hc
      rw [if_pos hc] at h
      obtain ⟨a1, h1, h⟩ := except_bind_ok h
      obtain ⟨a2, h2, h⟩ := except_bind_ok h
      rw [rd_append t h1, rd_append t h2]
      exact ih _ _ h
    · rename_i hc; rw [if_neg hc] at h; exact h

theorem parseImports_append (f t : Bytes) (base secSize fuel pos : Nat) (is r : List ImportEntry)
    (h : parseImports f base secSize fuel pos is = .ok r) :
    parseImports (f ++ t) base secSize fuel pos is = .ok r := by
  induction fuel generalizing pos is with
  | zero => simpa [parseImports] using h
  | succ fuel ih =>
    simp only [parseImports] at h ⊢
    split
    · rename_i hc
      rw [if_pos hc] at h
      obtain ⟨a1, h1, h⟩ := except_bind_ok h
      obtain ⟨a2, h2, h⟩ := except_bind_ok h
      obtain ⟨a3, h3, h⟩ := except_bind_ok h
      obtain ⟨a4, h4, h⟩ := except_bind_ok h
      rw [rd_append t h1, rd_append t h2, rd_append t h3, rd_append t h4]
      simp only [bind, Except.bind] at h ⊢
      split
      · rename_i hs; rw [if_pos hs] at h; exact h
      · rename_i hs
        rw [if_neg hs] at h
        obtain ⟨pt, h5, h⟩ := except_bind_ok h
        rw [rdBytes_append t h5]
        exact ih _ _ h
    · rename_i hc; rw [if_neg hc] at h; exact h

theorem loadSection_append (f t : Bytes) (m : Module) (e i : Nat) (r : Module × Nat)
    (h : loadSection f m e i = .ok r) : loadSection (f ++ t) m e i = .ok r := by
  unfold loadSection at h ⊢
  dsimp only at h ⊢
  obtain ⟨ty, h1, h⟩ := except_bind_ok h
  obtain ⟨off, h2, h⟩ := except_bind_ok h
  obtain ⟨sz, h3, h⟩ := except_bind_ok h
  rw [rd_append t h1, rd_append t h2, rd_append t h3]
  simp only [bind, Except.bind] at h ⊢
  split at h
  · cases h
  · rename_i hb
    have hb' : ¬ ((decide (off > (f ++ t).length) || decide (sz > (f ++ t).length - off)) = true) := by
      simp only [Bool.or_eq_true, decide_eq_true_eq, List.length_append] at hb ⊢
      omega
    rw [if_neg hb']
    split
    · rename_i hty
      rw [if_pos hty] at h
      obtain ⟨ss, h4, h⟩ := except_bind_ok h
      rw [parseStrings_append f t _ _ _ _ _ _ h4]; exact h
    · rename_i hty
      rw [if_neg hty] at h
      split
      · rename_i hty2
        rw [if_pos hty2] at h
        obtain ⟨c, h4, h⟩ := except_bind_ok h
        rw [rdBytes_append t h4]; exact h
      · rename_i hty2
        rw [if_neg hty2] at h
        split
        · rename_i hty3
          rw [if_pos hty3] at h
          obtain ⟨fs, h4, h⟩ := except_bind_ok h
          rw [parseFunctions_append f t _ _ _ _ _ _ h4]; exact h
        · rename_i hty3
          rw [if_neg hty3] at h
          split
          · rename_i hty4
            rw [if_pos hty4] at h
            obtain ⟨ds, h4, h⟩ := except_bind_ok h
            rw [parseDebug_append f t _ _ _ _ _ _ h4]; exact h
          · rename_i hty4
            rw [if_neg hty4] at h
            split
            · rename_i hty5
              rw [if_pos hty5] at h
              obtain ⟨is, h4, h⟩ := except_bind_ok h
              rw [parseImports_append f t _ _ _ _ _ _ h4]; exact h
            · rename_i hty5
              rw [if_neg hty5] at h
              exact h

theorem loadSections_append (f t : Bytes) (n i : Nat) (m : Module) (e : Nat) (r : Module × Nat)
    (h : loadSections f n i m e = .ok r) : loadSections (f ++ t) n i m e = .ok r := by
  induction n generalizing i m e with
  | zero => simpa [loadSections] using h
  | succ n ih =>
    simp only [loadSections] at h ⊢
    obtain ⟨⟨m', e'⟩, h1, h⟩ := except_bind_ok h
    rw [loadSection_append f t m e i _ h1]
    exact ih _ _ _ h

/-- what a successful `deserialize` establishes -/
structure Accepted (data : Bytes) (m : Module) : Prop where
  size : Gen.headerSize ≤ data.length
  header : headerValid data = true
  crc : (crc32 (data.drop Gen.headerSize)).toNat = leVal ((data.drop Gen.checksumOffset).take 4)
  dir : Gen.headerSize + leVal ((data.drop 16).take 4) * Gen.sectionEntrySize ≤ data.length
  sections : loadSections data (leVal ((data.drop 16).take 4)) 0
      { flags := leVal ((data.drop 8).take 4), entryPoint := leVal ((data.drop 12).take 4) }
      (Gen.headerSize + leVal ((data.drop 16).take 4) * Gen.sectionEntrySize) = .ok (m, data.length)

theorem deserialize_ok {data : Bytes} {m : Module} (h : deserialize data = .ok m) : Accepted data m := by
  unfold deserialize at h
  simp only at h
  split at h
  · cases h
  · rename_i hsz
    split at h
    · cases h
    · rename_i hv
      split at h
      · cases h
      · rename_i hcrc
        split at h
        · cases h
        · rename_i hdir
          split at h
          · cases h
          · rename_i m' dataEnd hls
            split at h
            · cases h
            · rename_i hend
              cases h
              simp only [bne_iff_ne, ne_eq, Decidable.not_not] at hend hcrc
              simp only [Bool.not_eq_true, Bool.not_eq_false'] at hv
              refine ⟨by omega, by simpa using hv, hcrc, by omega, ?_⟩
              rw [hls, hend]

end NanoVerif
