/-
A concrete instance of the hypotheses of `C01.compile_body_correct` (non-vacuity): the function body
    let mut x: int = 5   while (< x 7) { set x (+ x 1) }   (println x)
its generated code (with the loop's forward and backward jump offsets), the bytes placed in a one-function
module, a machine state at function entry, and the reference run (output "7\n").
-/
import NanoVerif.Lemmas.CompileStmt
namespace NanoVerif.CompileEx2
open NanoVerif Gen

theorem cStmt_let_fwd {ce : CE} {cs cs1 cs2 : CS} {d : Nat} {x : String} {mu : Bool} {ty : Ty} {e : Expr} {c : List PI} {k : Nat}
    (he : cExpr ce cs e = .ok (cs1, c)) (ha : cs1.localAdd x (some ty) = .ok (cs2, k)) :
    cStmt ce cs d (.letS x mu ty e) = .ok (cs2, c ++ [loadIdx .STORE_LOCAL k]) := by
  rw [cStmt]; simp only [he, ha]

theorem cStmt_set_fwd {ce : CE} {cs cs1 : CS} {d : Nat} {x : String} {e : Expr} {c : List PI} {k : Nat}
    (hk : cs.localFind x = some k) (he : cExpr ce cs e = .ok (cs1, c)) :
    cStmt ce cs d (.setS x e) = .ok (cs1, c ++ [loadIdx .STORE_LOCAL k]) := by
  rw [cStmt]; simp only [hk, he]

theorem cStmt_print_fwd {ce : CE} {cs cs1 : CS} {d : Nat} {ln : Bool} {e : Expr} {c : List PI}
    (he : cExpr ce cs e = .ok (cs1, c)) :
    cStmt ce cs d (.printS ln e) = .ok (cs1, c ++ [ins (if ln then .PRINTLN else .PRINT)]) := by
  rw [cStmt]; simp only [he]

theorem cStmts_cons_fwd {ce : CE} {cs cs1 cs2 : CS} {d : Nat} {s : Stmt} {r : List Stmt} {c1 c2 : List PI}
    (h1 : cStmt ce cs d s = .ok (cs1, c1)) (h2 : cStmts ce cs1 d r = .ok (cs2, c2)) :
    cStmts ce cs d (s :: r) = .ok (cs2, c1 ++ c2) := by
  rw [cStmts]; simp only [h1, h2]

theorem cBlock_fwd {ce : CE} {cs cs1 : CS} {d : Nat} {ss : List Stmt} {c : List PI}
    (h : cStmts ce cs d ss = .ok (cs1, c)) : cBlock ce cs d ss = .ok (cs1.scopeEnd cs.locals.length, c) := by
  rw [cBlock]; simp only [h]

theorem cStmt_while_fwd {ce : CE} {cs cs1 cs2 : CS} {d : Nat} {c : Expr} {b : List Stmt} {cc cb : List PI}
    (hd : d < cgMaxLoopDepth) (hc : cExpr ce cs c = .ok (cs1, cc)) (hb : cBlock ce cs1 (d + 1) b = .ok (cs2, cb))
    (hk : countBrk cb ≤ cgMaxBreaks) :
    cStmt ce cs d (.whileS c b) = .ok (cs2, cc ++ [ins .JMP_FALSE [pat32 (5 + codeSize cb + 5)]] ++ resolve (codeSize cc + 5 + codeSize cb + 5) 0 (codeSize cc + 5) cb
               ++ [ins .JMP [pat32 (-((codeSize cc + 5 + codeSize cb : Nat) : Int))]]) := by
  rw [cStmt]
  rw [if_neg (by omega)]
  simp only [hc, hb]
  rw [if_neg (by omega)]


def body : List Stmt :=
  [.letS "x" true .int (.num 5),
   .whileS (.prefixOp .T_LT [.ident "x", .num 7]) [.setS "x" (.prefixOp .T_PLUS [.ident "x", .num 1])],
   .printS true (.ident "x")]
def cs1 : CS := { locals := [{ name := "x", ty := some .int }] }
def ccW : List PI := [loadIdx .LOAD_LOCAL 0] ++ [ins .PUSH_I64 [pat64 7]] ++ [ins .LT]
def cbW : List PI := (([loadIdx .LOAD_LOCAL 0] ++ [ins .PUSH_I64 [pat64 1]] ++ [ins .ADD]) ++ [loadIdx .STORE_LOCAL 0]) ++ []
def code : List PI :=
  ([ins .PUSH_I64 [pat64 5]] ++ [loadIdx .STORE_LOCAL 0]) ++
  ((ccW ++ [ins .JMP_FALSE [pat32 (5 + codeSize cbW + 5)]] ++ resolve (codeSize ccW + 5 + codeSize cbW + 5) 0 (codeSize ccW + 5) cbW
      ++ [ins .JMP [pat32 (-((codeSize ccW + 5 + codeSize cbW : Nat) : Int))]]) ++
   (([loadIdx .LOAD_LOCAL 0] ++ [ins .PRINTLN]) ++ []))

theorem local0 : cs1.localFind "x" = some 0 := by decide

theorem compiles : cStmts {} {} 0 body = .ok (cs1, code) := by
  have hx : cExpr {} cs1 (.ident "x") = .ok (cs1, [loadIdx .LOAD_LOCAL 0]) := cExpr_ident_local _ _ _ 0 local0
  have hcond : cExpr {} cs1 (.prefixOp .T_LT [.ident "x", .num 7]) = .ok (cs1, ccW) :=
    cExpr_strict _ _ _ _ _ .LT _ _ _ _ hx (cExpr_num ..) rfl
  have hinc : cExpr {} cs1 (.prefixOp .T_PLUS [.ident "x", .num 1]) = .ok (cs1, [loadIdx .LOAD_LOCAL 0] ++ [ins .PUSH_I64 [pat64 1]] ++ [ins .ADD]) :=
    cExpr_strict _ _ _ _ _ .ADD _ _ _ _ hx (cExpr_num ..) rfl
  have hset := cStmt_set_fwd (d := 1) local0 hinc
  have hblk : cBlock {} cs1 1 [.setS "x" (.prefixOp .T_PLUS [.ident "x", .num 1])] = .ok (cs1, cbW) := by
    have := cBlock_fwd (cStmts_cons_fwd hset cStmts_nil)
    rw [scopeEnd_self] at this
    exact this
  have hwhile := cStmt_while_fwd (d := 0) (by decide) hcond hblk (by decide)
  have hprint := cStmt_print_fwd (d := 0) (ln := true) hx
  have hlet : cStmt {} {} 0 (.letS "x" true .int (.num 5)) = .ok (cs1, [ins .PUSH_I64 [pat64 5]] ++ [loadIdx .STORE_LOCAL 0]) :=
    cStmt_let_fwd (cExpr_num ..) rfl
  exact cStmts_cons_fwd hlet (cStmts_cons_fwd hwhile (cStmts_cons_fwd hprint cStmts_nil))

def bytes : Bytes := [1, 5, 0, 0, 0, 0, 0, 0, 0, 17, 0, 0, 16, 0, 0, 1, 7, 0, 0, 0, 0, 0, 0, 0, 42, 58, 26, 0, 0, 0, 16, 0, 0, 1, 1, 0,
 0, 0, 0, 0, 0, 0, 32, 17, 0, 0, 56, 222, 255, 255, 255, 16, 0, 0, 164]
theorem encodes : encodeAll code = some bytes := by decide
def m : Module := { functions := [⟨0, 0, 0, 55, 1, 0⟩], code := bytes }
def s0 : VmState := { stack := [.void], frames := [⟨0, 0, 0, 1, none⟩] }

theorem runs : Sem.execStmts Sem.vmCfg [] 20 [] {} body = .ok (.next, [("x", .int 7)], { out := [55, 10] }) := by
  simp [body, Sem.execStmts, Sem.execStmt, Sem.execWhile, Sem.execBlock, Sem.evalExpr, Sem.lookup?, Sem.update, Sem.binArith,
    Sem.wrap64, Sem.fmtSVal, Sem.decBytes]
  decide +kernel

theorem at0 : CodeAt m s0.curFn s0.ip bytes :=
  ⟨⟨⟨0, 0, 0, 55, 1, 0⟩, rfl, by decide, by decide, by decide, by decide⟩, [], by decide⟩

theorem inv0 : StInv {} {} [] {} ⟨0, 0, 0, 1, none⟩ 1 s0 := by
  refine ⟨⟨?_, ?_⟩, rfl, ?_, rfl, ?_, rfl⟩
  · intro x w h; simp [Sem.lookup?] at h
  · intro x w _ h; simp [Sem.lookup?] at h
  · intro j v _ h
    have : j = 0 := by
      rcases List.getElem?_eq_some_iff.mp h with ⟨hh, _⟩
      simp [s0] at hh; omega
    subst this
    simp [s0] at h; subst h; rfl
  · intro x k h; simp [CS.localFind] at h


end NanoVerif.CompileEx2
