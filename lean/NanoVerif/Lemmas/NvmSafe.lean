import NanoVerif.Lemmas.Nvm
namespace NanoVerif

/-- the loader result is not the `.oob` error (no read outside the buffer happened) -/
def NoOob {α : Type} (x : Except LoadErr α) : Prop := x ≠ .error .oob

theorem NoOob.ok {α : Type} (a : α) : NoOob (.ok a : Except LoadErr α) := by
  intro h; cases h

theorem NoOob.reject {α : Type} : NoOob (.error .reject : Except LoadErr α) := by
  intro h; cases h

theorem NoOob.bind {α β : Type} {x : Except LoadErr α} {f : α → Except LoadErr β}
    (hx : NoOob x) (hf : ∀ a, x = .ok a → NoOob (f a)) : NoOob (x >>= f) := by
  cases x with
  | error e =>
    intro h
    apply hx
    cases e with
    | reject => cases h
    | oob => rfl
  | ok a => exact hf a rfl

theorem rd_inb (data : Bytes) (off n : Nat) (h : off + n ≤ data.length) :
    ∃ v, rd data off n = .ok v ∧ v < 256 ^ n := by
  unfold rd slice?
  rw [if_pos h]
  refine ⟨_, rfl, ?_⟩
  have := leVal_lt ((data.drop off).take n)
  have hl : ((data.drop off).take n).length = n := by simp; omega
  rwa [hl] at this

theorem rdBytes_inb (data : Bytes) (off n : Nat) (h : off + n ≤ data.length) :
    ∃ v, rdBytes data off n = .ok v := by
  unfold rdBytes slice?
  rw [if_pos h]
  exact ⟨_, rfl⟩

theorem u32_of_lt {n : Nat} (h : n < 4294967296) : u32 n = n := Nat.mod_eq_of_lt h

theorem parseStrings_safe (data : Bytes) (base secSize : Nat) (hb : base + secSize ≤ data.length)
    (hs : secSize + 8 < 4294967296) (fuel pos : Nat) (ss : List Bytes) (hp : pos ≤ secSize) :
    NoOob (parseStrings data base secSize fuel pos ss) := by
  induction fuel generalizing pos ss with
  | zero => exact NoOob.ok _
  | succ fuel ih =>
    simp only [parseStrings]
    split
    · rename_i hc
      rw [u32_of_lt (by omega)] at hc
      obtain ⟨slen, h1, _⟩ := rd_inb data (base + pos) 4 (by omega)
      rw [h1]
      simp only [bind, Except.bind]
      split
      · exact NoOob.ok _
      · rename_i hsl
        obtain ⟨s, h2⟩ := rdBytes_inb data (base + (pos + 4)) slen (by omega)
        rw [h2]
        exact ih _ _ (by omega)
    · exact NoOob.ok _

theorem parseFunctions_safe (data : Bytes) (base secSize : Nat) (hb : base + secSize ≤ data.length)
    (hs : secSize + Gen.functionEntrySize < 4294967296) (hfe : Gen.functionEntrySize = 18)
    (fuel pos : Nat) (fs : List FnEntry) (hp : pos ≤ secSize) :
    NoOob (parseFunctions data base secSize fuel pos fs) := by
  induction fuel generalizing pos fs with
  | zero => exact NoOob.ok _
  | succ fuel ih =>
    simp only [parseFunctions]
    split
    · rename_i hc
      rw [u32_of_lt (by omega)] at hc
      obtain ⟨a1, h1, _⟩ := rd_inb data (base + pos) 4 (by omega)
      obtain ⟨a2, h2, _⟩ := rd_inb data (base + pos + 4) 2 (by omega)
      obtain ⟨a3, h3, _⟩ := rd_inb data (base + pos + 6) 4 (by omega)
      obtain ⟨a4, h4, _⟩ := rd_inb data (base + pos + 10) 4 (by omega)
      obtain ⟨a5, h5, _⟩ := rd_inb data (base + pos + 14) 2 (by omega)
      obtain ⟨a6, h6, _⟩ := rd_inb data (base + pos + 16) 2 (by omega)
      rw [h1, h2, h3, h4, h5, h6]
      simp only [bind, Except.bind]
      exact ih _ _ (by omega)
    · exact NoOob.ok _

theorem parseDebug_safe (data : Bytes) (base secSize : Nat) (hb : base + secSize ≤ data.length)
    (hs : secSize + Gen.debugEntrySize < 4294967296) (hde : Gen.debugEntrySize = 8)
    (fuel pos : Nat) (ds : List DebugEntry) (hp : pos ≤ secSize) :
    NoOob (parseDebug data base secSize fuel pos ds) := by
  induction fuel generalizing pos ds with
  | zero => exact NoOob.ok _
  | succ fuel ih =>
    simp only [parseDebug]
    split
    · rename_i hc
      rw [u32_of_lt (by omega)] at hc
      obtain ⟨a1, h1, _⟩ := rd_inb data (base + pos) 4 (by omega)
      obtain ⟨a2, h2, _⟩ := rd_inb data (base + pos + 4) 4 (by omega)
      rw [h1, h2]
      simp only [bind, Except.bind]
      exact ih _ _ (by omega)
    · exact NoOob.ok _

theorem parseImports_safe (data : Bytes) (base secSize : Nat) (hb : base + secSize ≤ data.length)
    (hs : secSize + 65600 < 4294967296) (hie : Gen.importEntryBaseSize = 11)
    (fuel pos : Nat) (is : List ImportEntry) (hp : pos ≤ secSize) :
    NoOob (parseImports data base secSize fuel pos is) := by
  induction fuel generalizing pos is with
  | zero => exact NoOob.ok _
  | succ fuel ih =>
    simp only [parseImports]
    split
    · rename_i hc
      rw [u32_of_lt (by omega)] at hc
      obtain ⟨a1, h1, _⟩ := rd_inb data (base + pos) 4 (by omega)
      obtain ⟨a2, h2, _⟩ := rd_inb data (base + pos + 4) 4 (by omega)
      obtain ⟨pc, h3, hpc⟩ := rd_inb data (base + pos + 8) 2 (by omega)
      obtain ⟨a4, h4, _⟩ := rd_inb data (base + pos + 10) 1 (by omega)
      rw [h1, h2, h3, h4]
      simp only [bind, Except.bind]
      split
      · exact NoOob.ok _
      · rename_i hsl
        have hpc' : pc < 65536 := by simpa using hpc
        rw [u32_of_lt (by omega)] at hsl
        obtain ⟨pt, h5⟩ := rdBytes_inb data (base + (pos + 11)) pc (by omega)
        rw [h5]
        exact ih _ _ (by omega)
    · exact NoOob.ok _

theorem layout_consts : Gen.functionEntrySize = 18 ∧ Gen.debugEntrySize = 8 ∧ Gen.importEntryBaseSize = 11
    ∧ Gen.sectionEntrySize = 12 := by decide

theorem loadSection_safe (data : Bytes) (hsz : data.length + 65600 < 4294967296) (m : Module) (e i : Nat)
    (hi : Gen.headerSize + (i + 1) * Gen.sectionEntrySize ≤ data.length) :
    NoOob (loadSection data m e i) := by
  obtain ⟨c1, c2, c3, c4⟩ := layout_consts
  unfold loadSection
  dsimp only
  have hi' : Gen.headerSize + i * Gen.sectionEntrySize + 12 ≤ data.length := by
    rw [c4] at hi ⊢; omega
  obtain ⟨ty, h1, _⟩ := rd_inb data (Gen.headerSize + i * Gen.sectionEntrySize) 4 (by omega)
  obtain ⟨off, h2, _⟩ := rd_inb data (Gen.headerSize + i * Gen.sectionEntrySize + 4) 4 (by omega)
  obtain ⟨sz, h3, _⟩ := rd_inb data (Gen.headerSize + i * Gen.sectionEntrySize + 8) 4 (by omega)
  rw [h1, h2, h3]
  simp only [bind, Except.bind]
  split
  · exact NoOob.reject
  · rename_i hb
    simp only [Bool.or_eq_true, decide_eq_true_eq, not_or, Nat.not_lt] at hb
    have hin : off + sz ≤ data.length := by omega
    split
    · apply NoOob.bind (parseStrings_safe data off sz hin (by omega) _ _ _ (by omega))
      intro a _; exact NoOob.ok _
    · split
      · obtain ⟨c, hc⟩ := rdBytes_inb data off sz hin
        rw [hc]; exact NoOob.ok _
      · split
        · apply NoOob.bind (parseFunctions_safe data off sz hin (by omega) c1 _ _ _ (by omega))
          intro a _; exact NoOob.ok _
        · split
          · apply NoOob.bind (parseDebug_safe data off sz hin (by omega) c2 _ _ _ (by omega))
            intro a _; exact NoOob.ok _
          · split
            · apply NoOob.bind (parseImports_safe data off sz hin (by omega) c3 _ _ _ (by omega))
              intro a _; exact NoOob.ok _
            · exact NoOob.ok _

theorem loadSections_safe (data : Bytes) (hsz : data.length + 65600 < 4294967296) (n i : Nat) (m : Module) (e : Nat)
    (hi : Gen.headerSize + (i + n) * Gen.sectionEntrySize ≤ data.length) :
    NoOob (loadSections data n i m e) := by
  induction n generalizing i m e with
  | zero => exact NoOob.ok _
  | succ n ih =>
    simp only [loadSections]
    apply NoOob.bind
    · apply loadSection_safe data hsz
      have : (i + 1) * Gen.sectionEntrySize ≤ (i + (n + 1)) * Gen.sectionEntrySize :=
        Nat.mul_le_mul_right _ (by omega)
      omega
    · intro ⟨m', e'⟩ _
      apply ih
      have : i + 1 + n = i + (n + 1) := by omega
      rw [this]; exact hi

end NanoVerif
