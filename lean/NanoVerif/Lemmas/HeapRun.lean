/-
C14 helper lemmas, machine level: calls, returns, the dispatch loop and `vm_execute` keep the
heap invariant; hence it holds in every reachable state.
-/
import NanoVerif.Lemmas.HeapOps
namespace NanoVerif.C14
open Gen (Opc)

/-- the heap invariant of a full VM state at an instruction boundary -/
def VOK (s : VmState) : Prop := OK s.toCore s.frames

theorem hfr_head (frames : List Frame) :
    ∀ ca, (frames.headD default).closure = some ca → Val.clos ca ∈ frames.filterMap (fun fr => fr.closure.map Val.clos) := by
  intro ca hca
  cases frames with
  | nil => simp [List.headD] at hca; cases hca
  | cons fr rest =>
    simp only [List.headD_cons] at hca
    simp [List.filterMap_cons, hca]

theorem enterFn_ok (m : Module) (s : VmState) (callee : Nat) (closure : Option Nat)
    (h : SX s.toCore s.frames (match closure with | some a => [Val.clos a] | none => [])) :
    VOK (enterFn m s callee closure).1 := by
  have hdrop : VOK s := by
    unfold VOK OK
    apply h.perm
    intro w _; simp
  unfold enterFn
  split
  · exact hdrop
  · split
    · exact hdrop
    · rename_i fn _ _
      unfold VOK OK SX at *
      apply HX.mono h
      intro w hw
      have h0 := count_replicate_void (fn.localCount - fn.arity) w hw
      cases closure with
      | none =>
        simp only [rootsOf, List.filterMap_cons, Option.map_none, List.count_append, List.count_nil] at h0 ⊢
        omega
      | some a =>
        simp only [rootsOf, List.filterMap_cons, Option.map_some, List.count_append, List.count_cons, List.count_nil] at h0 ⊢
        omega

theorem unwindTo_ok {c : Core} {frames : List Frame} {ex : List Val} (base : Nat) (h : SX c frames ex) :
    SX (unwindTo c base) frames ex := by
  unfold unwindTo
  split
  · have h1 : SX { c with stack := c.stack.take base } frames ((c.stack.drop base).reverse ++ ex) := by
      unfold SX at *
      apply HX.mono h
      intro w _
      have : (c.stack.take base).count w + (c.stack.drop base).count w = c.stack.count w := by
        rw [← List.count_append, List.take_append_drop]
      simp only [rootsOf, List.count_append, List.count_reverse] at this ⊢
      omega
    exact HX.releaseList h1
  · exact h

theorem doRet_ok (s : VmState) (implicit : Bool) (h : VOK s) : VOK (doRet s implicit).1 := by
  unfold doRet
  split
  · split <;> exact h
  · rename_i fr rest hfr
    unfold VOK OK at h
    rw [hfr] at h
    -- the result value
    have h1 : SX (if s.stack.length > u32 (fr.stackBase + fr.localCount) then s.toCore.pop else (s.toCore, Val.void)).1 (fr :: rest)
        [(if s.stack.length > u32 (fr.stackBase + fr.localCount) then s.toCore.pop else (s.toCore, Val.void)).2] := by
      split
      · exact h.pop
      · apply h.perm; intro w hw; simp only [List.count_nil]; exact Nat.le_of_eq (count_void w hw)
    generalize (if s.stack.length > u32 (fr.stackBase + fr.localCount) then s.toCore.pop else (s.toCore, Val.void)) = pr at h1 ⊢
    obtain ⟨c1, result⟩ := pr
    simp only at h1 ⊢
    have h2 := unwindTo_ok fr.stackBase h1
    generalize unwindTo c1 fr.stackBase = c2 at h2 ⊢
    -- the frame's closure reference moves from the root set into the handler's hands and is released
    cases hcl : fr.closure with
    | none =>
      simp only
      have h3 : SX c2 rest [result] := by
        unfold SX at *
        apply HX.mono h2
        intro w _
        simp only [rootsOf, List.filterMap_cons, hcl, Option.map_none, List.count_append]
        omega
      split
      · exact h3.push
      · exact (h3.congr (c' := { c2 with ip := _ }) rfl rfl rfl).push
    | some a =>
      simp only
      have h3 : SX c2 rest [Val.clos a, result] := by
        unfold SX at *
        apply HX.mono h2
        intro w _
        simp only [rootsOf, List.filterMap_cons, hcl, Option.map_some, List.count_append, List.count_cons, List.count_nil]
        omega
      split
      · exact h3.release.push
      · exact (h3.release.congr (c' := { c2.release (.clos a) with ip := _ }) rfl rfl rfl).push

theorem execInstr_ok (m : Module) (s : VmState) (is : Nat) (op : Opc) (args : List Nat) (h : VOK s) :
    VOK (execInstr m s is op args).1 := by
  unfold execInstr execData
  by_cases hc : Opc.isControl op = true
  · simp only [hc, if_true]
    split
    · exact enterFn_ok m s _ none h
    · exact doRet_ok s false h
    · have h1 : SX s.toCore.pop.1 s.frames [s.toCore.pop.2] := SX.pop h
      split
      · rename_i a hv
        split
        · rename_i fn caps ho
          exact enterFn_ok m { s with toCore := s.toCore.pop.1 } fn (some a) (by show SX s.toCore.pop.1 s.frames [Val.clos a]; rw [← hv]; exact h1)
        · rename_i hno
          obtain ⟨fn, caps, ho⟩ := clos_of_held h1 (by rw [← hv]; exact mem_ex_head)
          exact absurd ho (hno fn caps)
      · split
        · exact h1.release
        · exact h1.drop
  · simp only [hc, Bool.false_eq_true, if_false]
    exact execData_ok m _ s.toCore s.frames is args op (hfr_head s.frames) h

theorem step_ok (m : Module) (s : VmState) (h : VOK s) : VOK (step m s).1 := by
  unfold step
  split
  · exact h
  · dsimp only
    split
    · exact h
    · split
      · split
        · exact h
        · split
          · exact h
          · split
            · exact SX.congr (c' := { s.toCore with ip := _ }) h rfl rfl rfl
            · exact execInstr_ok m _ _ _ _ (SX.congr (c' := { s.toCore with ip := _ }) h rfl rfl rfl)
      · exact doRet_ok s true h

theorem callFunction_ok (m : Module) (s : VmState) (f : Nat) (h : VOK s) : VOK (callFunction m s f).1 := by
  unfold callFunction
  split
  · exact h
  · split
    · exact h
    · rename_i fn _ _
      unfold VOK OK SX at *
      apply HX.mono h
      intro w hw
      have h0 := count_replicate_void fn.localCount w hw
      simp only [rootsOf, List.filterMap_cons, Option.map_none, List.count_append, List.count_nil] at h0 ⊢
      omega

theorem runLoop_ok (m : Module) : ∀ (fuel : Nat) (s : VmState), VOK s → VOK (runLoop m fuel s).1 := by
  intro fuel
  induction fuel with
  | zero => intro s h; exact h
  | succ n ih =>
    intro s h
    unfold runLoop
    have hs := step_ok m s h
    split
    · rename_i s' heq
      rw [heq] at hs
      exact ih s' hs
    · rename_i r hne
      exact hs

theorem vok_init : VOK {} := by
  unfold VOK OK SX
  refine ⟨by simp [Heap.keys], by simp [Heap.keys], rfl, ?_, ?_, ?_⟩
  · intro p hp; simp at hp
  · intro a ha; simp [rootsOf, heapRefs] at ha
  · constructor
    · intro v hv; simp [rootsOf] at hv
    · intro p hp; simp at hp

theorem runFn_ok (m : Module) (s : VmState) (f fl : Nat) (hs : VOK s) (r : Step × Nat)
    (hr : (match callFunction m s f with
            | (s', Outcome.running) => (runLoop m fl s', fuelLeft m fl s')
            | r => (r, fl)) = r) : VOK r.1.1 := by
  subst hr
  have hc := callFunction_ok m s f hs
  split
  · rename_i s' heq
    rw [heq] at hc
    exact runLoop_ok m fl s' hc
  · exact hc

theorem execute_ok (m : Module) (fuel : Nat) : VOK (execute m fuel).1 := by
  unfold execute
  simp only
  split
  · exact vok_init
  · split
    · exact vok_init
    · split
      · rename_i i hi
        split
        · rename_i s1 fuel' heq
          have h1 : VOK s1 := runFn_ok m {} i fuel vok_init _ heq
          exact runFn_ok m s1 m.entryPoint fuel' h1 _ rfl
        · rename_i r x hne heq
          exact runFn_ok m {} i fuel vok_init _ heq
      · exact runFn_ok m {} m.entryPoint fuel vok_init _ rfl

/-! ### a `dangling` outcome always marks the heap, so the invariant excludes it -/

theorem binArith_dang (c : Core) (op : Opc) (w : String) :
    (binArith c op).2 = .dangling w → (binArith c op).1.heap.dangling = true := by
  unfold binArith
  simp only
  generalize coerceEnum c.pop.1.pop.2 = A
  generalize coerceEnum c.pop.2 = B
  (repeat' split) <;> simp [cont, errS, unsup, dang, Heap.markDangling]

theorem dang_marks (m : Module) (fr : Frame) (c : Core) (is : Nat) (op : Opc) (args : List Nat) (w : String) :
    (execData' m fr c is op args).2 = .dangling w → (execData' m fr c is op args).1.heap.dangling = true := by
  cases op
  case ADD | SUB | MUL | DIV | MOD => simp only [execData']; exact binArith_dang c _ w
  all_goals (simp only [execData', binCompare] <;> (repeat' split) <;> simp [cont, errS, unsup, dang, Heap.markDangling])

theorem execInstr_dang (m : Module) (s : VmState) (is : Nat) (op : Opc) (args : List Nat) (w : String) :
    (execInstr m s is op args).2 = .dangling w → (execInstr m s is op args).1.heap.dangling = true := by
  unfold execInstr execData
  by_cases hc : Opc.isControl op = true
  · simp only [hc, if_true]
    split
    · unfold enterFn; (repeat' split) <;> simp
    · unfold doRet; (repeat' split) <;> simp
    · (repeat' split) <;> first | (unfold enterFn; (repeat' split) <;> simp) | simp [Heap.markDangling]
  · simp only [hc, Bool.false_eq_true, if_false]
    intro h
    have := dang_marks m (s.frames.headD default) s.toCore is op args w
    cases ho : (execData' m (s.frames.headD default) s.toCore is op args).2 <;> rw [ho] at h <;> simp [DOutcome.toOutcome] at h
    subst h
    exact this ho

theorem step_dang (m : Module) (s : VmState) (w : String) :
    (step m s).2 = .dangling w → (step m s).1.heap.dangling = true := by
  unfold step
  split
  · simp
  · dsimp only
    split
    · simp
    · split
      · split
        · simp
        · split
          · simp
          · split
            · simp
            · exact execInstr_dang m _ _ _ _ w
      · unfold doRet; (repeat' split) <;> simp

theorem runLoop_dang (m : Module) (w : String) : ∀ (fuel : Nat) (s : VmState),
    (runLoop m fuel s).2 = .dangling w → (runLoop m fuel s).1.heap.dangling = true := by
  intro fuel
  induction fuel with
  | zero => intro s h; simp [runLoop] at h
  | succ n ih =>
    intro s
    unfold runLoop
    split
    · rename_i s' heq; exact ih s'
    · rename_i r hne
      exact step_dang m s w

theorem runFn_dang (m : Module) (s : VmState) (f fl : Nat) (w : String) (r : Step × Nat)
    (hr : (match callFunction m s f with
            | (s', Outcome.running) => (runLoop m fl s', fuelLeft m fl s')
            | r => (r, fl)) = r) : r.1.2 = .dangling w → r.1.1.heap.dangling = true := by
  subst hr
  split
  · rename_i s' heq; exact runLoop_dang m w fl s'
  · rename_i r hne
    unfold callFunction; (repeat' split) <;> simp

/-- **no execution ever observes a dangling value**: the outcome `dangling` (the C code would touch a freed
    object, or find an object of the wrong kind behind a value) is unreachable from the initial state -/
theorem execute_never_dangling (m : Module) (fuel : Nat) (w : String) : (execute m fuel).2 ≠ .dangling w := by
  intro hd
  have hclean : (execute m fuel).1.heap.dangling = false := (execute_ok m fuel).clean
  have : (execute m fuel).1.heap.dangling = true := by
    revert hd
    unfold execute
    simp only
    split
    · simp
    · split
      · simp
      · split
        · rename_i i hi
          split
          · rename_i s1 fuel' heq
            exact runFn_dang m s1 m.entryPoint fuel' w _ rfl
          · rename_i r x hne heq
            exact runFn_dang m {} i fuel w _ heq
        · exact runFn_dang m {} m.entryPoint fuel w _ rfl
  rw [this] at hclean; cases hclean

end NanoVerif.C14
