/-
A concrete instance of the hypotheses of `C01.compile_expr_correct_native` (non-vacuity): the expression
`(and (< 1 x) (== (* x 3) 15))` with x = 5 in local slot 0, its generated code, its bytes placed in a
one-function module, and a machine state whose frame holds x.
-/
import NanoVerif.Lemmas.CompileExpr
namespace NanoVerif.CompileEx
open NanoVerif Gen

def exE : Expr := .prefixOp .T_AND [.prefixOp .T_LT [.num 1, .ident "x"], .prefixOp .T_EQ [.prefixOp .T_STAR [.ident "x", .num 3], .num 15]]
def exCs : CS := { locals := [{ name := "x" }] }
def exCode : List PI :=
  [ins .PUSH_I64 [1], loadIdx .LOAD_LOCAL 0, ins .LT] ++ [ins .JMP_FALSE [pat32 (5 + codeSize ([loadIdx .LOAD_LOCAL 0, ins .PUSH_I64 [3]] ++ [ins .MUL] ++ [ins .PUSH_I64 [15]] ++ [ins .EQ]) + 1 + 5)]] ++
    ([loadIdx .LOAD_LOCAL 0, ins .PUSH_I64 [3]] ++ [ins .MUL] ++ [ins .PUSH_I64 [15]] ++ [ins .EQ]) ++ [ins .CAST_BOOL, ins .JMP [pat32 (5 + 2)], ins .PUSH_BOOL [0]]

theorem exLocal : exCs.localFind "x" = some 0 := by decide

theorem exCompile : cExpr {} exCs exE = .ok (exCs, exCode) := by
  unfold exE exCode
  have h1 : cExpr {} exCs (.prefixOp .T_LT [.num 1, .ident "x"]) = .ok (exCs, [ins .PUSH_I64 [pat64 1]] ++ [loadIdx .LOAD_LOCAL 0] ++ [ins .LT]) :=
    cExpr_strict _ _ _ _ _ .LT _ _ _ _ (cExpr_num ..) (cExpr_ident_local _ _ _ 0 exLocal) rfl
  have h2 : cExpr {} exCs (.prefixOp .T_STAR [.ident "x", .num 3]) = .ok (exCs, [loadIdx .LOAD_LOCAL 0] ++ [ins .PUSH_I64 [pat64 3]] ++ [ins .MUL]) :=
    cExpr_strict _ _ _ _ _ .MUL _ _ _ _ (cExpr_ident_local _ _ _ 0 exLocal) (cExpr_num ..) rfl
  have h3 := cExpr_strict {} exCs exCs exCs .T_EQ .EQ _ _ _ _ h2 (cExpr_num _ _ 15) rfl
  rw [cExpr_and {} exCs exCs exCs _ _ _ _ h1 h3]
  rfl
def exBytes : Bytes := [1, 1, 0, 0, 0, 0, 0, 0, 0, 16, 0, 0, 42, 58, 34, 0, 0, 0, 16, 0, 0, 1, 3, 0, 0, 0, 0, 0, 0, 0, 34, 1, 15, 0, 0, 0,
 0, 0, 0, 0, 40, 138, 56, 7, 0, 0, 0, 3, 0]
theorem exEncode : encodeAll exCode = some exBytes := by decide
def exM : Module := { functions := [⟨0, 0, 0, 49, 1, 0⟩], code := exBytes }
def exS : VmState := { stack := [.int 5], frames := [⟨0, 0, 0, 1, none⟩] }
def exLoc : Sem.Locals := [("x", .int 5)]

theorem exSem : Sem.evalExpr Sem.nativeCfg [] 10 exLoc {} exE = .ok (.bool true, {}) := by
  simp [Sem.evalExpr, exE, exLoc, Sem.lookup?, Sem.binArith, Sem.wrap64]

theorem exAt : CodeAt exM exS.curFn exS.ip exBytes :=
  ⟨⟨⟨0, 0, 0, 49, 1, 0⟩, rfl, by decide, by decide, by decide, by decide⟩, [], by decide⟩

theorem exEnv : EnvOK {} exCs exLoc {} 0 exS.stack exS.globals := by
  refine ⟨?_, ?_⟩
  · intro x w h
    unfold exLoc Sem.lookup? at h
    simp only [List.find?_cons] at h
    split at h
    · rename_i hx
      simp only [Option.map_some, Option.some.injEq] at h
      subst h
      have : x = "x" := by simpa using (beq_iff_eq.mp hx).symm
      subst this
      exact ⟨0, .int 5, exLocal, rfl, VRel.int 5, by decide, by decide⟩
    · simp at h
  · intro x w _ h
    simp [Sem.lookup?] at h


end NanoVerif.CompileEx
