/-
Whole-program level of the compiler-correctness proof: `return e` at the end of a function body of the
fragment, the module `compileProgram` assembles for a program that consists of `main` alone, and
`execute` on that module.
-/
import NanoVerif.Lemmas.CompileStmt

namespace NanoVerif
open Gen

theorem step_ret {m : Module} {s : VmState} {fr : Frame} {frs : List Frame} {bs : Bytes}
    (hfr : s.frames = fr :: frs) (hc : CodeAt m s.curFn s.ip bs)
    (he : encode ⟨Opc.RET.toByte, []⟩ = some bs) :
    step m s = doRet { s with toCore := { s.toCore with ip := s.ip + bs.length } } false := by
  obtain ⟨⟨fn, h1, h2, h3, h4, h5⟩, rest, hr⟩ := hc
  have hwf : Instr.wf ⟨Opc.RET.toByte, []⟩ := wf0 _ (by decide)
  have hlen : 0 < bs.length := by
    have := C11.decode_encode _ bs [] hwf he
    cases bs with
    | nil => simp [decode] at this
    | cons => simp
  unfold step
  simp only [h1, hfr, List.isEmpty_cons, Bool.false_eq_true, if_false]
  have hu : u32 (fn.codeOffset + fn.codeLength) = fn.codeOffset + fn.codeLength := by
    unfold u32; omega
  rw [hu]
  have hlt : s.ip < fn.codeOffset + fn.codeLength := by omega
  simp only [hlt, if_true]
  have hgt : ¬ (fn.codeOffset + fn.codeLength > m.code.length) := by omega
  simp only [hgt, if_false]
  rw [hr]
  have htk : (bs ++ rest).take (fn.codeOffset + fn.codeLength - s.ip) = bs ++ rest.take (fn.codeOffset + fn.codeLength - s.ip - bs.length) := by
    rw [List.take_append]
    have : List.take (fn.codeOffset + fn.codeLength - s.ip) bs = bs := List.take_of_length_le (by omega)
    rw [this]
  rw [htk, C11.decode_encode _ bs _ hwf he]
  simp only [Opc.ofByte_toByte]
  unfold execInstr execData
  have hctl : Opc.isControl Opc.RET = true := rfl
  simp only [hctl, if_true]

theorem release_all_inert (h : Heap) (l : List Val) (hl : ∀ v ∈ l, Val.inert v) : h.release l = h := by
  induction l with
  | nil => rw [Heap.release]
  | cons v r ih =>
    have hv : v.addr? = none := hl v (by simp)
    rw [Heap.release]; simp only [hv]
    exact ih (fun w hw => hl w (by simp [hw]))

/-- `RET` in the outermost frame with the frame's slots inert and one value above them -/
theorem doRet_outer (s : VmState) (fr : Frame) (L : Nat) (v : Val) (pre : List Val)
    (hfr : s.frames = [fr]) (hst : s.stack = pre ++ [v]) (hlen : pre.length = fr.stackBase + L) (hL : fr.localCount = L)
    (h32 : fr.stackBase + L < 4294967296)
    (hin : ∀ j u, fr.stackBase ≤ j → pre[j]? = some u → Val.inert u) (hcl : fr.closure = none) :
    doRet s false = ({ s with toCore := { s.toCore with stack := pre.take fr.stackBase ++ [v] }, frames := [] }, .done) := by
  unfold doRet
  simp only [hfr]
  have hu : u32 (fr.stackBase + fr.localCount) = fr.stackBase + L := by rw [hL]; unfold u32; omega
  have hgt : s.stack.length > u32 (fr.stackBase + fr.localCount) := by rw [hu, hst]; simp; omega
  simp only [hgt, if_true, pop_append s.toCore pre v hst, hcl]
  unfold unwindTo
  simp only
  by_cases hb : pre.length > fr.stackBase
  · simp only [hb, if_true]
    have hrel : s.heap.release (pre.drop fr.stackBase).reverse = s.heap := by
      apply release_all_inert
      intro u hu'
      have hu2 : u ∈ pre.drop fr.stackBase := by simpa using hu'
      obtain ⟨i, hi⟩ := List.getElem?_of_mem hu2
      rw [List.getElem?_drop] at hi
      exact hin (fr.stackBase + i) u (by omega) hi
    simp only [hrel, Core.push]
  · simp only [hb, if_false, Core.push]
    have : pre.take fr.stackBase = pre := List.take_of_length_le (by omega)
    rw [this]

theorem cStmt_ret_inv {ce : CE} {cs cs' : CS} {d : Nat} {e : Expr} {code : List PI}
    (h : cStmt ce cs d (.ret (some e)) = .ok (cs', code)) :
    ∃ c, cExpr ce cs e = .ok (cs', c) ∧ code = c ++ [ins .RET] := by
  rw [cStmt] at h
  split at h
  · cases h
  · rename_i cs1 c he
    cases h
    exact ⟨c, he, rfl⟩

/-- a function body of the fragment that ends with `return e` -/
inductive BodyR : List Stmt → Prop
  | ret (e : Expr) : PureE e → BodyR [.ret (some e)]
  | letS (x : String) (mu : Bool) (ty : Ty) (e : Expr) (r : List Stmt) : PureE e → BodyR r → BodyR (.letS x mu ty e :: r)
  | stmt (st : Stmt) (r : List Stmt) : StmtF st → BodyR r → BodyR (st :: r)

theorem bodyR_mono (ce : CE) (ss : List Stmt) (hb : BodyR ss) :
    ∀ (cs cs' : CS) (d : Nat) (code : List PI), cStmts ce cs d ss = .ok (cs', code) → cs.locals.length ≤ cs'.locals.length := by
  induction hb with
  | ret e he =>
    intro cs cs' d code h
    obtain ⟨cs1, c1, c2, h1, h2, rfl⟩ := cStmts_cons_inv h
    rw [cStmts_nil] at h2; cases h2
    obtain ⟨c, hc, _⟩ := cStmt_ret_inv h1
    rw [cExpr_pure_cs ce e he cs _ c hc]; exact Nat.le_refl _
  | letS x mu ty e r he _ ih =>
    intro cs cs' d code h
    obtain ⟨cs1, c1, c2, h1, h2, rfl⟩ := cStmts_cons_inv h
    obtain ⟨cs0, c, k, hce, hadd, rfl⟩ := cStmt_let_inv h1
    have e1 := cExpr_pure_cs ce e he cs cs0 c hce
    subst e1
    obtain ⟨_, rfl, _⟩ := localAdd_ok _ _ _ _ _ hadd
    have := ih _ cs' d c2 h2
    simp at this; omega
  | stmt st r hst _ ih =>
    intro cs cs' d code h
    obtain ⟨cs1, c1, c2, h1, h2, rfl⟩ := cStmts_cons_inv h
    obtain ⟨rfl, _⟩ := stmtF_compF ce st hst cs cs1 d c1 h1
    exact ih cs1 cs' d c2 h2

/-- such a body ends with a `return` statement -/
theorem bodyR_last (ss : List Stmt) (hb : BodyR ss) : ∃ e, ss.getLast? = some (.ret (some e)) := by
  induction hb with
  | ret e _ => exact ⟨e, rfl⟩
  | letS x mu ty e r _ hr ih =>
    obtain ⟨e', he'⟩ := ih
    cases r with
    | nil => simp at he'
    | cons y r' => exact ⟨e', by rw [List.getLast?_cons_cons]; exact he'⟩
  | stmt st r _ hr ih =>
    obtain ⟨e', he'⟩ := ih
    cases r with
    | nil => simp at he'
    | cons y r' => exact ⟨e', by rw [List.getLast?_cons_cons]; exact he'⟩

/-- the code of such a body ends with the `RET` opcode -/
theorem bodyR_ends_ret (ce : CE) (ss : List Stmt) (hb : BodyR ss) :
    ∀ (cs cs' : CS) (d : Nat) (code : List PI) (bs : Bytes), cStmts ce cs d ss = .ok (cs', code) → encodeAll code = some bs →
      bs.getLast? = some (UInt8.ofNat Opc.RET.toByte) := by
  induction hb with
  | ret e he =>
    intro cs cs' d code bs h henc
    obtain ⟨cs1, c1, c2, h1, h2, rfl⟩ := cStmts_cons_inv h
    rw [cStmts_nil] at h2; cases h2
    obtain ⟨c, hc, rfl⟩ := cStmt_ret_inv h1
    rw [List.append_nil] at henc
    obtain ⟨ba, bb, _, hbb, rfl⟩ := encodeAll_append _ _ _ henc
    have : bb = [UInt8.ofNat Opc.RET.toByte] := by
      have h1 := encodeAll_single _ _ _ hbb
      have h2 : encode ⟨Opc.RET.toByte, []⟩ = some [UInt8.ofNat Opc.RET.toByte] := by decide
      rw [h2] at h1; cases h1; rfl
    rw [this]; simp
  | letS x mu ty e r he _ ih =>
    intro cs cs' d code bs h henc
    obtain ⟨cs1, c1, c2, h1, h2, rfl⟩ := cStmts_cons_inv h
    obtain ⟨b1, b2, _, hb2, rfl⟩ := encodeAll_append _ _ _ henc
    have := ih cs1 cs' d c2 b2 h2 hb2
    rw [List.getLast?_append, this]; rfl
  | stmt st r hst _ ih =>
    intro cs cs' d code bs h henc
    obtain ⟨cs1, c1, c2, h1, h2, rfl⟩ := cStmts_cons_inv h
    obtain ⟨b1, b2, _, hb2, rfl⟩ := encodeAll_append _ _ _ henc
    have := ih cs1 cs' d c2 b2 h2 hb2
    rw [List.getLast?_append, this]; rfl

theorem runN_add_done (m : Module) (a : Nat) (s s1 sf : VmState) (h : runN m a s = (s1, .running)) (hd : step m s1 = (sf, .done)) :
    runN m (a + 1) s = (sf, .done) := by
  rw [runN_add m a 1 s s1 h]
  simp only [runN, hd]

theorem runLoop_done (m : Module) (a k : Nat) (s sf : VmState) (h : runN m (a + 1) s = (sf, .done)) :
    runLoop m (a + 1 + k) s = (sf, .done) := by
  induction a generalizing s with
  | zero =>
    simp only [runN] at h
    rw [Nat.zero_add, Nat.add_comm]
    simp only [runLoop]
    cases hs : step m s with
    | mk s' o =>
      rw [hs] at h
      cases o <;> simp_all [runN]
  | succ a ih =>
    have e : a + 1 + 1 + k = (a + 1 + k) + 1 := by omega
    rw [e]
    simp only [runLoop]
    rw [show a + 1 + 1 = (a + 1) + 1 from rfl] at h
    simp only [runN] at h
    cases hs : step m s with
    | mk s' o =>
      rw [hs] at h
      cases o with
      | running => simp only at h ⊢; exact ih s' h
      | _ => simp_all

/-- **simulation for a function body that ends with `return e`**, run in the outermost frame -/
theorem bodyR_sim (m : Module) (ce : CE) (p : Program) (L : Nat) (ss : List Stmt) (hb : BodyR ss) :
    ∀ (cs cs' : CS) (code : List PI) (d fuel : Nat) (loc loc' : Sem.Locals) (g g' : Sem.GState) (fl : Sem.Flow)
      (s : VmState) (fr : Frame) (bs : Bytes),
      cStmts ce cs d ss = .ok (cs', code) →
      Sem.execStmts Sem.vmCfg p fuel loc g ss = .ok (fl, loc', g') →
      s.frames = [fr] → fr.localCount = L → fr.closure = none → fr.stackBase = 0 →
      encodeAll code = some bs → CodeAt m s.curFn s.ip bs → StInv ce cs loc g fr L s →
      cs'.locals.length ≤ L → fr.stackBase + L < 4294967296 →
      ∃ w v n sf, fl = .ret w ∧ VRel w v ∧ runN m (n + 1) s = (sf, .done) ∧ sf.out = g'.out ∧ sf.stack = [v] := by
  induction hb with
  | ret e he =>
    intro cs cs' code d fuel loc loc' g g' fl s fr bs hc hs hfr hLc hcl hb0 henc hat hinv _ h32
    obtain ⟨cs1, c1, c2, h1, h2, rfl⟩ := cStmts_cons_inv hc
    rw [cStmts_nil] at h2; cases h2
    obtain ⟨c, hce, rfl⟩ := cStmt_ret_inv h1
    rw [List.append_nil] at henc
    obtain ⟨bc, br, hbc, hbr, rfl⟩ := encodeAll_append _ _ _ henc
    cases fuel with
    | zero => simp [Sem.execStmts] at hs
    | succ f =>
      simp only [Sem.execStmts] at hs
      cases f with
      | zero => simp [Sem.execStmt] at hs
      | succ f2 =>
        simp only [Sem.execStmt] at hs
        cases hev : Sem.evalExpr Sem.vmCfg p f2 loc g e with
        | error er => simp [hev] at hs
        | ok r =>
          obtain ⟨w, g1⟩ := r
          simp only [hev, Except.ok.injEq, Prod.mk.injEq] at hs
          obtain ⟨rfl, rfl, rfl⟩ := hs
          obtain ⟨_, rfl, v, n, hv, hrun⟩ := cExpr_sim m ce p e he cs _ c f2 loc g g1 w s fr [] bc hce hev hfr hbc hat.left hinv.env
          have hstep : step m (advS s (s.ip + bc.length) (s.stack ++ [v])) =
              ({ (advS s (s.ip + bc.length + br.length) (s.stack ++ [v])) with
                  toCore := { (advS s (s.ip + bc.length + br.length) (s.stack ++ [v])).toCore with stack := s.stack.take fr.stackBase ++ [v] },
                  frames := [] }, .done) := by
            rw [step_ret (s := advS s (s.ip + bc.length) (s.stack ++ [v])) (fr := fr) (frs := []) (by simpa using hfr)
              (by simpa using hat.right) (encodeAll_single _ _ _ hbr)]
            exact doRet_outer _ fr L v s.stack (by simpa using hfr) rfl hinv.len hLc h32 hinv.inert hcl
          exact ⟨w, v, n, _, rfl, hv, runN_add_done m n s _ _ hrun hstep, hinv.out, by simp [hb0]⟩
  | letS x mu ty e r he hr ih =>
    intro cs cs' code d fuel loc loc' g g' fl s fr bs hc hs hfr hLc hcl hb0 henc hat hinv hL h32
    obtain ⟨cs1, c1, c2, h1, h2, rfl⟩ := cStmts_cons_inv hc
    obtain ⟨b1, b2, hb1, hb2, rfl⟩ := encodeAll_append _ _ _ henc
    have hmono := bodyR_mono ce r hr cs1 cs' d c2 h2
    cases fuel with
    | zero => simp [Sem.execStmts] at hs
    | succ f =>
      simp only [Sem.execStmts] at hs
      cases hst : Sem.execStmt Sem.vmCfg p f loc g (.letS x mu ty e) with
      | error er => simp [hst] at hs
      | ok res =>
        obtain ⟨fl1, loc1, g1⟩ := res
        obtain ⟨cs0, c, k, hce, hadd, _⟩ := cStmt_let_inv h1
        have e0 := cExpr_pure_cs ce e he cs cs0 c hce
        subst e0
        obtain ⟨_, hcs1, _⟩ := localAdd_ok _ _ _ _ _ hadd
        have hroom : cs0.locals.length < L := by
          have : cs1.locals.length = cs0.locals.length + 1 := by rw [hcs1]; simp
          omega
        obtain ⟨rfl, _, n1, s1, hrun1, hip1, hfr1, hcf1, hinv1⟩ :=
          sim_let m ce p L x mu ty e he cs0 cs1 c1 d f loc loc1 g g1 fl1 s fr [] b1 h1 hst hfr hb1 hat.left hinv hroom h32
        simp only [hst] at hs
        have hat2 : CodeAt m s1.curFn s1.ip b2 := by rw [hcf1, hip1]; exact hat.right
        obtain ⟨w, v, n2, sf, hfl, hv, hrun2, hout, hstk⟩ :=
          ih cs1 cs' c2 d f loc1 loc' g1 g' fl s1 fr b2 h2 hs (by rw [hfr1]; exact hfr) hLc hcl hb0 hb2 hat2 hinv1 hL h32
        refine ⟨w, v, n1 + n2, sf, hfl, hv, ?_, hout, hstk⟩
        rw [Nat.add_assoc, runN_add m n1 (n2 + 1) s s1 hrun1]; exact hrun2
  | stmt st r hst hr ih =>
    intro cs cs' code d fuel loc loc' g g' fl s fr bs hc hs hfr hLc hcl hb0 henc hat hinv hL h32
    obtain ⟨cs1, c1, c2, h1, h2, rfl⟩ := cStmts_cons_inv hc
    obtain ⟨rfl, _⟩ := stmtF_compF ce st hst cs cs1 d c1 h1
    obtain ⟨b1, b2, hb1, hb2, rfl⟩ := encodeAll_append _ _ _ henc
    cases fuel with
    | zero => simp [Sem.execStmts] at hs
    | succ f =>
      simp only [Sem.execStmts] at hs
      cases hse : Sem.execStmt Sem.vmCfg p f loc g st with
      | error er => simp [hse] at hs
      | ok res =>
        obtain ⟨fl1, loc1, g1⟩ := res
        obtain ⟨rfl, _, n1, s1, hrun1, hip1, hfr1, hcf1, hinv1⟩ :=
          stmtF_sim m ce p L st hst cs1 cs1 c1 d f loc loc1 g g1 fl1 s fr [] b1 h1 hse hfr hb1 hat.left hinv
        simp only [hse] at hs
        have hat2 : CodeAt m s1.curFn s1.ip b2 := by rw [hcf1, hip1]; exact hat.right
        obtain ⟨w, v, n2, sf, hfl, hv, hrun2, hout, hstk⟩ :=
          ih cs1 cs' c2 d f loc1 loc' g1 g' fl s1 fr b2 h2 hs (by rw [hfr1]; exact hfr) hLc hcl hb0 hb2 hat2 hinv1 hL h32
        refine ⟨w, v, n1 + n2, sf, hfl, hv, ?_, hout, hstk⟩
        rw [Nat.add_assoc, runN_add m n1 (n2 + 1) s s1 hrun1]; exact hrun2

/-! ### a program that consists of `main` alone -/

def mainCE (rt : Ty) : CE := { fns := [("main", 0)], fnRet := [("main", rt)] }

theorem compile_main_shape (rt : Ty) (body : List Stmt) (m : Module)
    (h : compileProgram [.fn "main" [] rt body] = .ok m) :
    ∃ ss bytes nloc, cFunction (mainCE rt) [stringToBytes "main"] [] body = .ok (ss, bytes, nloc) ∧
      m = { flags := flagHasMain, entryPoint := 0, strings := ss,
            functions := [{ nameIdx := 0, arity := 0, codeOffset := 0, codeLength := bytes.length, localCount := nloc % 65536, upvalueCount := 0 }],
            code := bytes } := by
  unfold compileProgram at h
  have hd : hasDupFn [Item.fn "main" [] rt body] = false := by
    simp [hasDupFn]
    decide
  simp only [hd, Bool.false_eq_true, if_false] at h
  have hp1 : pass1 [Item.fn "main" [] rt body] {} {} =
      .ok (mainCE rt, { strings := [stringToBytes "main"], functions := [{ nameIdx := 0, arity := 0, codeOffset := 0, codeLength := 0, localCount := 0, upvalueCount := 0 }], code := [] }) := by
    simp [pass1, addString, mainCE, cgMaxFunctions]
  rw [hp1] at h
  simp only [mainCE, List.length_nil, Nat.lt_irrefl, if_false, gt_iff_lt] at h
  have hff : ({ fns := [("main", 0)], fnRet := [("main", rt)] } : CE).fnFind "main" = some 0 := by
    simp [CE.fnFind]
  simp only [hff, pass2] at h
  cases hcf : cFunction { fns := [("main", 0)], fnRet := [("main", rt)] } [stringToBytes "main"] [] body with
  | error er => simp [hcf] at h
  | ok r =>
    obtain ⟨ss, bytes, nloc⟩ := r
    simp only [hcf, setFn] at h
    refine ⟨ss, bytes, nloc, hcf, ?_⟩
    simp at h
    rw [← h]

/-- compile-time facts for a body ending in `return`: the string pool is untouched and the number of
    locals stays within the generator's limit -/
theorem bodyR_cs (ce : CE) (ss : List Stmt) (hb : BodyR ss) :
    ∀ (cs cs' : CS) (d : Nat) (code : List PI), cStmts ce cs d ss = .ok (cs', code) →
      cs'.strings = cs.strings ∧ (cs.locals.length ≤ cgMaxLocals → cs'.locals.length ≤ cgMaxLocals) := by
  induction hb with
  | ret e he =>
    intro cs cs' d code h
    obtain ⟨cs1, c1, c2, h1, h2, rfl⟩ := cStmts_cons_inv h
    rw [cStmts_nil] at h2; cases h2
    obtain ⟨c, hc, _⟩ := cStmt_ret_inv h1
    rw [cExpr_pure_cs ce e he cs _ c hc]; exact ⟨rfl, id⟩
  | letS x mu ty e r he _ ih =>
    intro cs cs' d code h
    obtain ⟨cs1, c1, c2, h1, h2, rfl⟩ := cStmts_cons_inv h
    obtain ⟨cs0, c, k, hce, hadd, rfl⟩ := cStmt_let_inv h1
    have e1 := cExpr_pure_cs ce e he cs cs0 c hce
    subst e1
    obtain ⟨_, rfl, hlt⟩ := localAdd_ok _ _ _ _ _ hadd
    obtain ⟨hs, hl⟩ := ih _ cs' d c2 h2
    exact ⟨hs, fun _ => hl (by simp; omega)⟩
  | stmt st r hst _ ih =>
    intro cs cs' d code h
    obtain ⟨cs1, c1, c2, h1, h2, rfl⟩ := cStmts_cons_inv h
    obtain ⟨rfl, _⟩ := stmtF_compF ce st hst cs cs1 d c1 h1
    exact ih cs1 cs' d c2 h2

theorem cFunction_bodyR (ce : CE) (strings : List Bytes) (body : List Stmt) (hb : BodyR body)
    (ss : List Bytes) (bytes : Bytes) (nloc : Nat) (h : cFunction ce strings [] body = .ok (ss, bytes, nloc)) :
    ∃ cs1 code, cStmts ce { strings := strings, locals := [] } 0 body = .ok (cs1, code) ∧ encodeAll code = some bytes ∧
      nloc = cs1.locals.length ∧ ss = strings ∧ nloc ≤ cgMaxLocals := by
  unfold cFunction at h
  simp only [List.map_nil, List.length_nil] at h
  rw [if_neg (by decide)] at h
  cases hc : cStmts ce { strings := strings, locals := [] } 0 body with
  | error er => simp [hc] at h
  | ok r =>
    obtain ⟨cs1, code⟩ := r
    simp only [hc] at h
    cases he : encodeAll code with
    | none => simp [he] at h
    | some bs =>
      simp only [he] at h
      obtain ⟨elast, hlast⟩ := bodyR_last body hb
      simp only [hlast] at h
      simp only [Bool.false_eq_true, if_false, List.append_nil, Except.ok.injEq, Prod.mk.injEq] at h
      obtain ⟨h1, h2, h3⟩ := h
      obtain ⟨hs, hl⟩ := bodyR_cs ce body hb _ cs1 0 code hc
      exact ⟨cs1, code, rfl, by rw [← h2]; exact he, h3.symm, by rw [← h1, hs], by rw [← h3]; exact hl (by simp)⟩

theorem main_not_init : ((some (stringToBytes "main")).map cstr == some (strLit "__init__")) = false := by decide +kernel

/-- **whole program**: `execute` on the module `compileProgram` builds for `fn main() { body }` -/
theorem main_program_sim (rt : Ty) (body : List Stmt) (hb : BodyR body) (m : Module)
    (hc : compileProgram [.fn "main" [] rt body] = .ok m) (hsmall : m.code.length < 2147483648)
    (fuel : Nat) (fl : Sem.Flow) (loc' : Sem.Locals) (g' : Sem.GState)
    (hs : Sem.execStmts Sem.vmCfg [.fn "main" [] rt body] fuel [] {} body = .ok (fl, loc', g')) :
    ∃ w v n sf, fl = .ret w ∧ VRel w v ∧ (∀ k, execute m (n + 1 + k) = (sf, .done)) ∧ sf.out = g'.out ∧ sf.stack = [v] := by
  obtain ⟨ss, bytes, nloc, hcf, hm⟩ := compile_main_shape rt body m hc
  obtain ⟨cs1, code, hcs, henc, rfl, rfl, hmax⟩ := cFunction_bodyR _ _ body hb ss bytes nloc hcf
  have hmod : cs1.locals.length % 65536 = cs1.locals.length := by
    have : cgMaxLocals ≤ 65535 := by decide
    omega
  rw [hmod] at hm
  have hfun : m.functions = [{ nameIdx := 0, arity := 0, codeOffset := 0, codeLength := bytes.length, localCount := cs1.locals.length, upvalueCount := 0 }] := by rw [hm]
  have hcode : m.code = bytes := by rw [hm]
  have hflags : m.flags = flagHasMain := by rw [hm]
  have hentry : m.entryPoint = 0 := by rw [hm]
  have hstr : m.strings = [stringToBytes "main"] := by rw [hm]
  -- the state `vm_call_function` sets up
  let fr : Frame := { fnIdx := 0, returnIp := 0, stackBase := 0, localCount := cs1.locals.length, closure := none }
  let s1 : VmState := { stack := List.replicate cs1.locals.length Val.void, frames := [fr], curFn := 0, ip := 0 }
  have hinv : StInv (mainCE rt) { strings := [stringToBytes "main"], locals := [] } [] {} fr cs1.locals.length s1 := by
    refine ⟨⟨?_, ?_⟩, by simp [s1, fr], ?_, rfl, ?_, rfl⟩
    · intro x w h; simp [Sem.lookup?] at h
    · intro x w _ h; simp [Sem.lookup?] at h
    · intro j v _ h
      have hm : v ∈ s1.stack := List.mem_of_getElem? h
      have : v = Val.void := by simpa [s1] using (List.eq_of_mem_replicate hm)
      subst this; rfl
    · intro x k h; simp [CS.localFind] at h
  have hat : CodeAt m s1.curFn s1.ip bytes := by
    refine ⟨⟨_, by rw [hfun]; rfl, Nat.le_refl _, ?_, ?_, hsmall⟩, [], by simp [s1, hcode]⟩
    · simp [s1]
    · simp [hcode]
  obtain ⟨w, v, n, sf, hfl, hv, hrun, hout, hstk⟩ :=
    bodyR_sim m (mainCE rt) _ cs1.locals.length body hb _ cs1 code 0 fuel [] loc' {} g' fl s1 fr bytes hcs hs rfl rfl rfl rfl henc hat hinv
      (Nat.le_refl _) (by have : cgMaxLocals < 4294967296 := by decide
                          simp [fr]; omega)
  refine ⟨w, v, n, sf, hfl, hv, ?_, hout, hstk⟩
  intro k
  unfold execute
  have hflag : (m.flags % 2 == 0) = false := by rw [hflags]; decide
  simp only [hflag, Bool.false_eq_true, if_false, hentry, hfun, List.length_cons, List.length_nil]
  rw [if_neg (by omega)]
  have hinit : initFn m = none := by
    unfold initFn
    rw [hfun, hstr]
    simp only [List.findIdx?_cons, List.getElem?_cons_zero, main_not_init, Bool.false_eq_true, if_false]
    rfl
  rw [hinit]
  simp only [callFunction, hfun, List.getElem?_cons_zero, List.length_nil]
  have hfrm : ¬ (0 ≥ Gen.vmMaxFrames) := by decide
  simp only [hfrm, if_false]
  exact runLoop_done m n k _ sf hrun

/-- what `runProgram` does on a program that consists of `main` alone -/
theorem runProgram_main (rt : Ty) (body : List Stmt) (fuel : Nat) (o : Sem.Obs)
    (h : Sem.runProgram Sem.vmCfg [.fn "main" [] rt body] (fuel + 2) = o) :
    (∃ f g, Sem.execStmts Sem.vmCfg [.fn "main" [] rt body] (fuel + 1) [] {} body = .error (f, g) ∧ o = ⟨g.out, .fault f⟩) ∨
    (∃ fl loc g, Sem.execStmts Sem.vmCfg [.fn "main" [] rt body] (fuel + 1) [] {} body = .ok (fl, loc, g) ∧
       o = ⟨g.out, match fl with | .ret (.int i) => .exit (i % 256).toNat | _ => .exit 0⟩) := by
  simp only [Sem.runProgram, Sem.initGlobals, Sem.evalExpr, Sem.evalArgs] at h
  have hb : Sem.builtin "main" [] ({} : Sem.GState) = none := by rfl
  have hn : Sem.isBuiltinName "main" = false := by decide
  have hf : Sem.findFn [Item.fn "main" [] rt body] "main" = some ([], body) := by simp [Sem.findFn]
  simp only [hb, hn, hf, Bool.false_eq_true, if_false, List.length_nil, bne_self_eq_false, List.map_nil, List.zip_nil_left, List.reverse_nil] at h
  cases hs : Sem.execStmts Sem.vmCfg [.fn "main" [] rt body] (fuel + 1) [] {} body with
  | error er =>
    obtain ⟨f, g⟩ := er
    simp only [hs] at h
    exact Or.inl ⟨f, g, rfl, h.symm⟩
  | ok r =>
    obtain ⟨fl, loc, g⟩ := r
    simp only [hs] at h
    refine Or.inr ⟨fl, loc, g, rfl, ?_⟩
    rw [← h]
    cases fl with
    | ret v => cases v <;> rfl
    | _ => rfl

end NanoVerif
