/-
Compiler correctness for the statement fragment over scalars: `set` of a local, `print`/`println`,
`if`/`else`, `while`, nested blocks (without declarations, `break`, `continue`, `return`), and `let` at the
level of the function body.  Helper lemmas; the property theorems are in Props/C01.lean.
-/
import NanoVerif.Lemmas.CompileExpr

namespace NanoVerif
open Gen

/-! ### values without a heap address -/

def Val.inert (v : Val) : Prop := v.addr? = none

theorem VRel.inert {w : Sem.SVal} {v : Val} (h : VRel w v) : Val.inert v := by
  cases h <;> rfl

theorem release1_inert (h : Heap) (v : Val) (hv : Val.inert v) : h.release1 v = h := by
  unfold Heap.release1
  unfold Val.inert at hv
  rw [Heap.release]; simp only [hv]; rw [Heap.release]

theorem core_release_inert (c : Core) (v : Val) (hv : Val.inert v) : c.release v = c := by
  unfold Core.release; rw [release1_inert _ _ hv]

/-! ### STORE_LOCAL, PRINT / PRINTLN, backward jumps -/

theorem ed_store_local (m : Module) (fr : Frame) (c : Core) (is k : Nat) (st : List Val) (v old : Val)
    (hk : fr.stackBase + k < 4294967296) (hs : c.stack = st ++ [v]) (hlt : fr.stackBase + k < st.length)
    (hold : st[fr.stackBase + k]? = some old) (hin : Val.inert old) :
    execData' m fr c is .STORE_LOCAL [k] = ({ c with stack := st.set (fr.stackBase + k) v }, .running) := by
  have hu : u32 (fr.stackBase + k) = fr.stackBase + k := by unfold u32; omega
  simp only [execData', List.getD_cons_zero, hu]
  have hlen : c.stack.length = st.length + 1 := by rw [hs]; simp
  rw [if_neg (by omega), pop_append c st v hs]
  simp only
  have hg : st.getD (fr.stackBase + k) v = old := by
    rw [List.getD_eq_getElem?_getD, hold]; rfl
  rw [hg, core_release_inert _ _ hin]
  simp only [hlt, if_true]
  rfl

theorem strLit_true : strLit "true" = [116, 114, 117, 101] := by decide +kernel
theorem strLit_false : strLit "false" = [102, 97, 108, 115, 101] := by decide +kernel

/-- the text the VM prints for a represented scalar is the reference's text -/
theorem fmtVal_rel (h : Heap) (w : Sem.SVal) (v : Val) (hv : VRel w v) : fmtVal h 66 [] v = some (Sem.fmtSVal w) := by
  cases hv with
  | int x => simp [fmtVal, Sem.fmtSVal, intToDec, Sem.decBytes]
  | bool b => cases b <;> simp [fmtVal, Sem.fmtSVal, strLit_true, strLit_false]

theorem ed_print (m : Module) (fr : Frame) (c : Core) (is : Nat) (st : List Val) (w : Sem.SVal) (v : Val) (ln : Bool)
    (hv : VRel w v) (hs : c.stack = st ++ [v]) :
    execData' m fr c is (if ln then .PRINTLN else .PRINT) [] =
      ({ c with stack := st, out := c.out ++ Sem.fmtSVal w ++ (if ln then [10] else []) }, .running) := by
  have e1 : (Opc.PRINT == Opc.PRINTLN) = false := by decide
  cases ln
  · simp only [Bool.false_eq_true, if_false, execData', pop_append c st v hs, fmtVal_rel _ w v hv, List.append_nil, e1]
    rw [core_release_inert _ _ hv.inert]
    rfl
  · simp only [if_true, execData', pop_append c st v hs, fmtVal_rel _ w v hv, beq_self_eq_true, List.append_assoc]
    rw [core_release_inert _ _ hv.inert]
    rfl

/-- target of a backward jump by `d` bytes from the instruction at `is` -/
theorem jmp_target_back (is d : Nat) (h : d ≤ is) (h2 : is < 2147483648) :
    u32 (((is : Int) + toI32 (pat32 (-(d : Int)))) % 4294967296).toNat = is - d := by
  by_cases hd : d = 0
  · subst hd
    have hp : pat32 (-((0 : Nat) : Int)) = 0 := by decide
    rw [hp]; unfold u32 toI32; simp; omega
  · have hp : pat32 (-(d : Int)) = 4294967296 - d := by unfold pat32; omega
    have ht : toI32 (4294967296 - d) = -(d : Int) := by
      unfold toI32; rw [if_pos (by omega)]; omega
    rw [hp, ht]; unfold u32; omega

theorem ed_jmp_back (m : Module) (fr : Frame) (c : Core) (is d : Nat) (h : d ≤ is) (h2 : is < 2147483648) :
    execData' m fr c is .JMP [pat32 (-(d : Int))] = ({ c with ip := is - d }, .running) := by
  simp only [execData', List.getD_cons_zero, jmp_target_back is d h h2]
  rfl

/-! ### what `cStmt` emits: inversion lemmas -/

theorem cStmt_set_inv {ce : CE} {cs cs' : CS} {d : Nat} {x : String} {e : Expr} {code : List PI} {k : Nat}
    (h : cStmt ce cs d (.setS x e) = .ok (cs', code)) (hk : cs.localFind x = some k) :
    ∃ c, cExpr ce cs e = .ok (cs', c) ∧ code = c ++ [loadIdx .STORE_LOCAL k] := by
  rw [cStmt] at h
  simp only [hk] at h
  split at h
  · cases h
  · rename_i cs1 c he
    cases h
    exact ⟨c, he, rfl⟩

theorem cStmt_print_inv {ce : CE} {cs cs' : CS} {d : Nat} {ln : Bool} {e : Expr} {code : List PI}
    (h : cStmt ce cs d (.printS ln e) = .ok (cs', code)) :
    ∃ c, cExpr ce cs e = .ok (cs', c) ∧ code = c ++ [ins (if ln then .PRINTLN else .PRINT)] := by
  rw [cStmt] at h
  split at h
  · cases h
  · rename_i cs1 c he
    cases h
    exact ⟨c, he, rfl⟩

theorem cStmt_assert_inv {ce : CE} {cs cs' : CS} {d : Nat} {e : Expr} {code : List PI}
    (h : cStmt ce cs d (.assertS e) = .ok (cs', code)) :
    ∃ c, cExpr ce cs e = .ok (cs', c) ∧ code = c ++ [ins .ASSERT] := by
  rw [cStmt] at h
  split at h
  · cases h
  · rename_i cs1 c he
    cases h
    exact ⟨c, he, rfl⟩

theorem cStmt_expr_inv {ce : CE} {cs cs' : CS} {d : Nat} {e : Expr} {code : List PI}
    (h : cStmt ce cs d (.exprS e) = .ok (cs', code)) :
    ∃ c, cExpr ce cs e = .ok (cs', c) ∧ code = c ++ [ins .POP] := by
  rw [cStmt] at h
  split at h
  · cases h
  · rename_i cs1 c he
    cases h
    exact ⟨c, he, rfl⟩

theorem cStmt_let_inv {ce : CE} {cs cs' : CS} {d : Nat} {x : String} {mu : Bool} {ty : Ty} {e : Expr} {code : List PI}
    (h : cStmt ce cs d (.letS x mu ty e) = .ok (cs', code)) :
    ∃ cs1 c k, cExpr ce cs e = .ok (cs1, c) ∧ cs1.localAdd x (some ty) = .ok (cs', k) ∧ code = c ++ [loadIdx .STORE_LOCAL k] := by
  rw [cStmt] at h
  split at h
  · cases h
  · rename_i cs1 c he
    split at h
    · cases h
    · rename_i cs2 k ha
      cases h
      exact ⟨cs1, c, k, he, ha, rfl⟩

theorem cStmt_block_inv {ce : CE} {cs cs' : CS} {d : Nat} {ss : List Stmt} {code : List PI}
    (h : cStmt ce cs d (.block ss) = .ok (cs', code)) : cBlock ce cs d ss = .ok (cs', code) := by
  rw [cStmt] at h; exact h

theorem cBlock_inv {ce : CE} {cs cs' : CS} {d : Nat} {ss : List Stmt} {code : List PI}
    (h : cBlock ce cs d ss = .ok (cs', code)) :
    ∃ cs1, cStmts ce cs d ss = .ok (cs1, code) ∧ cs' = cs1.scopeEnd cs.locals.length := by
  rw [cBlock] at h
  split at h
  · cases h
  · rename_i cs1 c he
    cases h
    exact ⟨cs1, he, rfl⟩

theorem cStmts_nil {ce : CE} {cs : CS} {d : Nat} : cStmts ce cs d [] = .ok (cs, []) := by
  rw [cStmts]

theorem cStmts_cons_inv {ce : CE} {cs cs' : CS} {d : Nat} {s : Stmt} {r : List Stmt} {code : List PI}
    (h : cStmts ce cs d (s :: r) = .ok (cs', code)) :
    ∃ cs1 c1 c2, cStmt ce cs d s = .ok (cs1, c1) ∧ cStmts ce cs1 d r = .ok (cs', c2) ∧ code = c1 ++ c2 := by
  rw [cStmts] at h
  split at h
  · cases h
  · rename_i cs1 c1 h1
    split at h
    · cases h
    · rename_i cs2 c2 h2
      cases h
      exact ⟨cs1, c1, c2, h1, h2, rfl⟩

theorem cStmt_if_inv {ce : CE} {cs cs' : CS} {d : Nat} {c : Expr} {t : List Stmt} {els : Option (List Stmt)} {b : Bool} {code : List PI}
    (h : cStmt ce cs d (.ifS c t els b) = .ok (cs', code)) :
    ∃ cs1 cc cs2 ct, cExpr ce cs c = .ok (cs1, cc) ∧ cBlock ce cs1 d t = .ok (cs2, ct) ∧
      ((els = none ∧ cs' = cs2 ∧ code = cc ++ [ins .JMP_FALSE [pat32 (5 + codeSize ct)]] ++ ct) ∨
       (∃ eb cel, els = some eb ∧ cBlock ce cs2 d eb = .ok (cs', cel) ∧
          code = cc ++ [ins .JMP_FALSE [pat32 (5 + codeSize ct + 5)]] ++ ct ++ [ins .JMP [pat32 (5 + codeSize cel)]] ++ cel)) := by
  rw [cStmt] at h
  split at h
  · cases h
  · rename_i cs1 cc hc
    split at h
    · cases h
    · rename_i cs2 ct ht
      split at h
      · cases h
        exact ⟨_, cc, _, ct, hc, ht, Or.inl ⟨rfl, rfl, rfl⟩⟩
      · rename_i eb
        split at h
        · cases h
        · rename_i cs3 cel hel
          cases h
          exact ⟨_, cc, _, ct, hc, ht, Or.inr ⟨eb, cel, rfl, hel, rfl⟩⟩

theorem cStmt_while_inv {ce : CE} {cs cs' : CS} {d : Nat} {c : Expr} {b : List Stmt} {code : List PI}
    (h : cStmt ce cs d (.whileS c b) = .ok (cs', code)) :
    ∃ cs1 cc cb, cExpr ce cs c = .ok (cs1, cc) ∧ cBlock ce cs1 (d + 1) b = .ok (cs', cb) ∧
      code = cc ++ [ins .JMP_FALSE [pat32 (5 + codeSize cb + 5)]] ++ resolve (codeSize cc + 5 + codeSize cb + 5) 0 (codeSize cc + 5) cb
               ++ [ins .JMP [pat32 (-((codeSize cc + 5 + codeSize cb : Nat) : Int))]] := by
  rw [cStmt] at h
  split at h
  · cases h
  · split at h
    · cases h
    · rename_i cs1 cc hc
      split at h
      · cases h
      · rename_i cs2 cb hb
        split at h
        · cases h
        · cases h
          exact ⟨_, cc, cb, hc, hb, rfl⟩

/-! ### the statement fragment and what the generator does on it -/

theorem scopeEnd_self (cs : CS) : cs.scopeEnd cs.locals.length = cs := by
  unfold CS.scopeEnd
  have : (cs.locals.zipIdx.map (fun (p : Local × Nat) => if p.2 ≥ cs.locals.length then { p.1 with hidden := true } else p.1)) = cs.locals := by
    have h1 : ∀ p ∈ cs.locals.zipIdx, (if p.2 ≥ cs.locals.length then { p.1 with hidden := true } else p.1) = p.1 := by
      intro p hp
      have := List.mem_zipIdx hp
      simp at this
      rw [if_neg (by omega)]
    rw [List.map_congr_left h1]
    simp
  cases cs
  simp_all

/-- statements without declarations, `break`, `continue`, `return`, `for`: assignment to a variable,
    printing, `assert`, expression statements, conditionals, `while` loops, nested blocks - over expressions
    of the pure fragment -/
inductive StmtF : Stmt → Prop
  | set (x : String) (e : Expr) : PureE e → StmtF (.setS x e)
  | print (ln : Bool) (e : Expr) : PureE e → StmtF (.printS ln e)
  | assert (e : Expr) : PureE e → StmtF (.assertS e)
  | expr (e : Expr) : PureE e → StmtF (.exprS e)
  | if1 (c : Expr) (t : List Stmt) (b : Bool) : PureE c → (∀ s ∈ t, StmtF s) → StmtF (.ifS c t none b)
  | if2 (c : Expr) (t eb : List Stmt) (b : Bool) : PureE c → (∀ s ∈ t, StmtF s) → (∀ s ∈ eb, StmtF s) → StmtF (.ifS c t (some eb) b)
  | while (c : Expr) (b : List Stmt) : PureE c → (∀ s ∈ b, StmtF s) → StmtF (.whileS c b)
  | block (ss : List Stmt) : (∀ s ∈ ss, StmtF s) → StmtF (.block ss)

def noPH : List PI → Bool
  | [] => true
  | .i _ :: r => noPH r
  | _ :: _ => false

theorem noPH_append (a b : List PI) : noPH (a ++ b) = (noPH a && noPH b) := by
  induction a with
  | nil => simp [noPH]
  | cons x r ih => cases x <;> simp [noPH, ih]

theorem resolve_noPH (bt ct : Nat) (off : Nat) (c : List PI) (h : noPH c = true) : resolve bt ct off c = c := by
  induction c generalizing off with
  | nil => rfl
  | cons x r ih =>
    cases x with
    | i x => simp only [resolve]; rw [ih _ (by simpa [noPH] using h)]
    | brk => simp [noPH] at h
    | cont => simp [noPH] at h

theorem encodeAll_noPH (c : List PI) (bs : Bytes) (h : encodeAll c = some bs) : noPH c = true := by
  induction c generalizing bs with
  | nil => rfl
  | cons x r ih =>
    cases x with
    | i x =>
      simp only [encodeAll] at h
      cases hx : encode x with
      | none => simp [hx] at h
      | some bx =>
        cases hr : encodeAll r with
        | none => simp [hx, hr] at h
        | some br => simp only [noPH]; exact ih br hr
    | brk => simp [encodeAll] at h
    | cont => simp [encodeAll] at h

/-- what the generator guarantees on a statement: the compile-time state is unchanged and the code has no
    loop placeholders -/
def CompF (ce : CE) (st : Stmt) : Prop :=
  ∀ (cs cs' : CS) (d : Nat) (code : List PI), cStmt ce cs d st = .ok (cs', code) → cs' = cs ∧ noPH code = true

theorem cStmts_compF (ce : CE) (ss : List Stmt) (ih : ∀ s ∈ ss, CompF ce s) :
    ∀ (cs cs' : CS) (d : Nat) (code : List PI), cStmts ce cs d ss = .ok (cs', code) → cs' = cs ∧ noPH code = true := by
  induction ss with
  | nil => intro cs cs' d code h; rw [cStmts_nil] at h; cases h; exact ⟨rfl, rfl⟩
  | cons s r ihr =>
    intro cs cs' d code h
    obtain ⟨cs1, c1, c2, h1, h2, rfl⟩ := cStmts_cons_inv h
    obtain ⟨rfl, n1⟩ := ih s (by simp) cs cs1 d c1 h1
    obtain ⟨rfl, n2⟩ := ihr (fun s hs => ih s (by simp [hs])) cs1 cs' d c2 h2
    exact ⟨rfl, by rw [noPH_append, n1, n2]; rfl⟩

theorem cBlock_compF (ce : CE) (ss : List Stmt) (ih : ∀ s ∈ ss, CompF ce s) :
    ∀ (cs cs' : CS) (d : Nat) (code : List PI), cBlock ce cs d ss = .ok (cs', code) → cs' = cs ∧ noPH code = true := by
  intro cs cs' d code h
  obtain ⟨cs1, h1, rfl⟩ := cBlock_inv h
  obtain ⟨rfl, n⟩ := cStmts_compF ce ss ih cs cs1 d code h1
  exact ⟨scopeEnd_self _, n⟩

theorem cExpr_pure_noPH (ce : CE) (e : Expr) (hp : PureE e) :
    ∀ (cs cs' : CS) (code : List PI), cExpr ce cs e = .ok (cs', code) → noPH code = true := by
  induction hp with
  | num v => intro cs cs' code h; rw [cExpr_num] at h; cases h; rfl
  | bool b => intro cs cs' code h; rw [cExpr_bool] at h; cases h; rfl
  | ident x =>
    intro cs cs' code h
    rw [cExpr] at h
    split at h
    · cases h; rfl
    · split at h
      · cases h; rfl
      · split at h
        · cases h; rfl
        · cases h
  | neg a _ ih =>
    intro cs cs' code h
    cases ha : cExpr ce cs a with
    | error e => rw [cExpr_un_err ce cs _ a e ha] at h; cases h
    | ok r => obtain ⟨cs1, ca⟩ := r; rw [cExpr_neg ce cs cs1 a ca ha] at h; cases h; rw [noPH_append, ih cs _ ca ha]; rfl
  | not a _ ih =>
    intro cs cs' code h
    cases ha : cExpr ce cs a with
    | error e => rw [cExpr_un_err ce cs _ a e ha] at h; cases h
    | ok r => obtain ⟨cs1, ca⟩ := r; rw [cExpr_not ce cs cs1 a ca ha] at h; cases h; rw [noPH_append, ih cs _ ca ha]; rfl
  | strict op o a b ho _ _ iha ihb =>
    intro cs cs' code h
    cases ha : cExpr ce cs a with
    | error e => rw [cExpr_bin_err1 ce cs op a b e ha] at h; cases h
    | ok r =>
      obtain ⟨cs1, ca⟩ := r
      cases hb : cExpr ce cs1 b with
      | error e => rw [cExpr_bin_err2 ce cs cs1 op a b ca e ha hb] at h; cases h
      | ok r2 =>
        obtain ⟨cs2, cb⟩ := r2
        rw [cExpr_strict ce cs cs1 cs2 op o a b ca cb ha hb ho] at h
        cases h
        rw [noPH_append, noPH_append, iha cs _ ca ha, ihb cs1 _ cb hb]; rfl
  | and a b _ _ iha ihb =>
    intro cs cs' code h
    cases ha : cExpr ce cs a with
    | error e => rw [cExpr_bin_err1 ce cs _ a b e ha] at h; cases h
    | ok r =>
      obtain ⟨cs1, ca⟩ := r
      cases hb : cExpr ce cs1 b with
      | error e => rw [cExpr_bin_err2 ce cs cs1 _ a b ca e ha hb] at h; cases h
      | ok r2 =>
        obtain ⟨cs2, cb⟩ := r2
        rw [cExpr_and ce cs cs1 cs2 a b ca cb ha hb] at h
        cases h
        rw [noPH_append, noPH_append, noPH_append, iha cs _ ca ha, ihb cs1 _ cb hb]; rfl
  | or a b _ _ iha ihb =>
    intro cs cs' code h
    cases ha : cExpr ce cs a with
    | error e => rw [cExpr_bin_err1 ce cs _ a b e ha] at h; cases h
    | ok r =>
      obtain ⟨cs1, ca⟩ := r
      cases hb : cExpr ce cs1 b with
      | error e => rw [cExpr_bin_err2 ce cs cs1 _ a b ca e ha hb] at h; cases h
      | ok r2 =>
        obtain ⟨cs2, cb⟩ := r2
        rw [cExpr_or ce cs cs1 cs2 a b ca cb ha hb] at h
        cases h
        rw [noPH_append, noPH_append, noPH_append, iha cs _ ca ha, ihb cs1 _ cb hb]; rfl

theorem stmtF_compF (ce : CE) (st : Stmt) (hf : StmtF st) : CompF ce st := by
  induction hf with
  | set x e he =>
    intro cs cs' d code h
    rw [cStmt] at h
    split at h
    · split at h
      · cases h
      · rename_i cs1 c hc
        cases h
        exact ⟨cExpr_pure_cs ce e he cs _ c hc, by rw [noPH_append, cExpr_pure_noPH ce e he cs _ c hc]; rfl⟩
    · split at h
      · split at h
        · cases h
        · rename_i cs1 c hc
          cases h
          exact ⟨cExpr_pure_cs ce e he cs _ c hc, by rw [noPH_append, cExpr_pure_noPH ce e he cs _ c hc]; rfl⟩
      · cases h
  | print ln e he =>
    intro cs cs' d code h
    obtain ⟨c, hc, rfl⟩ := cStmt_print_inv h
    exact ⟨cExpr_pure_cs ce e he cs _ c hc, by rw [noPH_append, cExpr_pure_noPH ce e he cs _ c hc]; rfl⟩
  | assert e he =>
    intro cs cs' d code h
    obtain ⟨c, hc, rfl⟩ := cStmt_assert_inv h
    exact ⟨cExpr_pure_cs ce e he cs _ c hc, by rw [noPH_append, cExpr_pure_noPH ce e he cs _ c hc]; rfl⟩
  | expr e he =>
    intro cs cs' d code h
    obtain ⟨c, hc, rfl⟩ := cStmt_expr_inv h
    exact ⟨cExpr_pure_cs ce e he cs _ c hc, by rw [noPH_append, cExpr_pure_noPH ce e he cs _ c hc]; rfl⟩
  | if1 c t b hc _ iht =>
    intro cs cs' d code h
    obtain ⟨cs1, cc, cs2, ct, h1, h2, h3⟩ := cStmt_if_inv h
    have e1 := cExpr_pure_cs ce c hc cs _ cc h1
    subst e1
    obtain ⟨rfl, n2⟩ := cBlock_compF ce t iht _ _ d ct h2
    rcases h3 with ⟨_, rfl, rfl⟩ | ⟨eb, cel, he, _, _⟩
    · exact ⟨rfl, by rw [noPH_append, noPH_append, cExpr_pure_noPH ce c hc _ _ cc h1, n2]; rfl⟩
    · cases he
  | if2 c t eb b hc _ _ iht ihe =>
    intro cs cs' d code h
    obtain ⟨cs1, cc, cs2, ct, h1, h2, h3⟩ := cStmt_if_inv h
    have e1 := cExpr_pure_cs ce c hc cs _ cc h1
    subst e1
    obtain ⟨rfl, n2⟩ := cBlock_compF ce t iht _ _ d ct h2
    rcases h3 with ⟨he, _, _⟩ | ⟨eb', cel, he, h4, rfl⟩
    · cases he
    · cases he
      obtain ⟨rfl, n3⟩ := cBlock_compF ce eb ihe _ _ d cel h4
      exact ⟨rfl, by rw [noPH_append, noPH_append, noPH_append, noPH_append, cExpr_pure_noPH ce c hc _ _ cc h1, n2, n3]; rfl⟩
  | «while» c b hc _ ihb =>
    intro cs cs' d code h
    obtain ⟨cs1, cc, cb, h1, h2, rfl⟩ := cStmt_while_inv h
    have e1 := cExpr_pure_cs ce c hc cs _ cc h1
    subst e1
    obtain ⟨rfl, n2⟩ := cBlock_compF ce b ihb _ _ (d + 1) cb h2
    exact ⟨rfl, by rw [noPH_append, noPH_append, noPH_append, resolve_noPH _ _ _ _ n2, cExpr_pure_noPH ce c hc _ _ cc h1, n2]; rfl⟩
  | block ss _ ih =>
    intro cs cs' d code h
    exact cBlock_compF ce ss ih cs cs' d code (cStmt_block_inv h)

/-! ### the state relation at statement boundaries -/

theorem localFind_name (cs : CS) (x : String) (k : Nat) (h : cs.localFind x = some k) :
    ∃ l, cs.locals[k]? = some l ∧ l.name = x := by
  unfold CS.localFind at h
  have hp := List.find?_some h
  cases hl : cs.locals[k]? with
  | none => simp [hl] at hp
  | some l =>
    simp only [hl, Bool.and_eq_true, beq_iff_eq] at hp
    exact ⟨l, rfl, hp.2⟩

theorem update_some_iff (loc : Sem.Locals) (x : String) (v : Sem.SVal) :
    (∃ loc', Sem.update loc x v = some loc') ↔ (Sem.lookup? loc x).isSome := by
  induction loc with
  | nil => simp [Sem.update, Sem.lookup?]
  | cons b r ih =>
    obtain ⟨y, w⟩ := b
    simp only [Sem.update, Sem.lookup?, List.find?_cons]
    by_cases hyx : y == x
    · simp [hyx]
    · simp only [hyx, Bool.false_eq_true, if_false]
      simp only [Sem.lookup?] at ih
      rw [← ih]
      constructor
      · rintro ⟨loc', h⟩
        cases hu : Sem.update r x v with
        | none => simp [hu] at h
        | some l => exact ⟨l, rfl⟩
      · rintro ⟨l, h⟩; exact ⟨(y, w) :: l, by simp [h]⟩

theorem update_lookup (loc loc' : Sem.Locals) (x : String) (v : Sem.SVal) (h : Sem.update loc x v = some loc') (y : String) :
    Sem.lookup? loc' y = if x == y then some v else Sem.lookup? loc y := by
  induction loc generalizing loc' with
  | nil => simp [Sem.update] at h
  | cons b r ih =>
    obtain ⟨z, w⟩ := b
    simp only [Sem.update] at h
    by_cases hzx : z == x
    · simp only [hzx, if_true, Option.some.injEq] at h
      subst h
      have hzx' : z = x := by simpa using hzx
      subst hzx'
      simp only [Sem.lookup?, List.find?_cons]
      by_cases hzy : z == y <;> simp [hzy]
    · simp only [hzx, Bool.false_eq_true, if_false] at h
      cases hu : Sem.update r x v with
      | none => simp [hu] at h
      | some l =>
        simp only [hu, Option.map_some, Option.some.injEq] at h
        subst h
        have := ih l hu
        simp only [Sem.lookup?, List.find?_cons] at this ⊢
        by_cases hzy : z == y
        · have hxy : (x == y) = false := by
            have h1 : z = y := by simpa using hzy
            subst h1
            cases hh : x == z with
            | false => rfl
            | true => have : x = z := by simpa using hh
                      subst this; simp at hzx
          simp [hzy, hxy]
        · simp only [hzy, Bool.false_eq_true, if_false]; exact this

theorem update_length (loc loc' : Sem.Locals) (x : String) (v : Sem.SVal) (h : Sem.update loc x v = some loc') :
    loc'.length = loc.length := by
  induction loc generalizing loc' with
  | nil => simp [Sem.update] at h
  | cons b r ih =>
    obtain ⟨z, w⟩ := b
    simp only [Sem.update] at h
    split at h
    · cases h; rfl
    · cases hu : Sem.update r x v with
      | none => simp [hu] at h
      | some l =>
        simp only [hu, Option.map_some, Option.some.injEq] at h
        subst h
        simp [ih l hu]

/-- the machine state at a statement boundary represents the reference state: the operand stack is empty
    (the stack ends with the frame's `L` slots), every slot is scalar or void, the output written so far is
    the reference's, every visible local is a reference variable, and there are no global variables -/
structure StInv (ce : CE) (cs : CS) (loc : Sem.Locals) (g : Sem.GState) (fr : Frame) (L : Nat) (s : VmState) : Prop where
  env : EnvOK ce cs loc g fr.stackBase s.stack s.globals
  len : s.stack.length = fr.stackBase + L
  inert : ∀ j v, fr.stackBase ≤ j → s.stack[j]? = some v → Val.inert v
  out : s.out = g.out
  closed : ∀ x k, cs.localFind x = some k → (Sem.lookup? loc x).isSome
  noglob : g.globals = []

/-- evaluating an expression of the pure fragment leaves the reference state unchanged -/
theorem pure_eval_state (cfg : Sem.Cfg) (p : Program) (e : Expr) (hp : PureE e) :
    ∀ (fuel : Nat) (loc : Sem.Locals) (g g1 : Sem.GState) (w : Sem.SVal),
      Sem.evalExpr cfg p fuel loc g e = .ok (w, g1) → g1 = g := by
  induction hp with
  | num v => intro fuel loc g g1 w h; cases fuel <;> simp [Sem.evalExpr] at h; exact h.2.symm
  | bool b => intro fuel loc g g1 w h; cases fuel <;> simp [Sem.evalExpr] at h; exact h.2.symm
  | ident x =>
    intro fuel loc g g1 w h
    cases fuel with
    | zero => simp [Sem.evalExpr] at h
    | succ f =>
      simp only [Sem.evalExpr] at h
      split at h
      · cases h; rfl
      · split at h
        · cases h; rfl
        · cases h
  | neg a _ ih =>
    intro fuel loc g g1 w h
    cases fuel with
    | zero => simp [Sem.evalExpr] at h
    | succ f =>
      simp only [Sem.evalExpr] at h
      cases ha : Sem.evalExpr cfg p f loc g a with
      | error er => simp [ha] at h
      | ok ra =>
        obtain ⟨wa, ga⟩ := ra
        have := ih f loc g ga wa ha
        subst this
        simp only [ha] at h
        split at h <;> cases h <;> rfl
  | not a _ ih =>
    intro fuel loc g g1 w h
    cases fuel with
    | zero => simp [Sem.evalExpr] at h
    | succ f =>
      simp only [Sem.evalExpr] at h
      cases ha : Sem.evalExpr cfg p f loc g a with
      | error er => simp [ha] at h
      | ok ra =>
        obtain ⟨wa, ga⟩ := ra
        have := ih f loc g ga wa ha
        subst this
        simp only [ha] at h
        split at h <;> cases h <;> rfl
  | strict op o a b ho _ _ iha ihb =>
    intro fuel loc g g1 w h
    cases fuel with
    | zero => simp [Sem.evalExpr] at h
    | succ f =>
      obtain ⟨hna, hno⟩ := binOpc_not_logic op o ho
      simp only [Sem.evalExpr, hna, hno, Bool.false_eq_true, if_false] at h
      cases ha : Sem.evalExpr cfg p f loc g a with
      | error er => simp [ha] at h
      | ok ra =>
        obtain ⟨wa, ga⟩ := ra
        have := iha f loc g ga wa ha
        subst this
        simp only [ha] at h
        cases hb : Sem.evalExpr cfg p f loc ga b with
        | error er => simp [hb] at h
        | ok rb =>
          obtain ⟨wb, gb⟩ := rb
          have := ihb f loc ga gb wb hb
          subst this
          simp only [hb] at h
          split at h <;> cases h
          rfl
  | and a b _ _ iha ihb =>
    intro fuel loc g g1 w h
    cases fuel with
    | zero => simp [Sem.evalExpr] at h
    | succ f =>
      simp only [Sem.evalExpr, beq_self_eq_true, if_true] at h
      cases ha : Sem.evalExpr cfg p f loc g a with
      | error er => simp [ha] at h
      | ok ra =>
        obtain ⟨wa, ga⟩ := ra
        have := iha f loc g ga wa ha
        subst this
        simp only [ha] at h
        split at h
        · cases h; rfl
        · cases hb : Sem.evalExpr cfg p f loc ga b with
          | error er => simp [hb] at h
          | ok rb =>
            obtain ⟨wb, gb⟩ := rb
            have := ihb f loc ga gb wb hb
            subst this
            simp only [hb] at h
            cases wb <;> simp at h
            exact h.2.symm
        · cases h
  | or a b _ _ iha ihb =>
    intro fuel loc g g1 w h
    cases fuel with
    | zero => simp [Sem.evalExpr] at h
    | succ f =>
      have hne : (TT.T_OR == TT.T_AND) = false := rfl
      simp only [Sem.evalExpr, hne, beq_self_eq_true, if_true, Bool.false_eq_true, if_false] at h
      cases ha : Sem.evalExpr cfg p f loc g a with
      | error er => simp [ha] at h
      | ok ra =>
        obtain ⟨wa, ga⟩ := ra
        have := iha f loc g ga wa ha
        subst this
        simp only [ha] at h
        split at h
        · cases h; rfl
        · cases hb : Sem.evalExpr cfg p f loc ga b with
          | error er => simp [hb] at h
          | ok rb =>
            obtain ⟨wb, gb⟩ := rb
            have := ihb f loc ga gb wb hb
            subst this
            simp only [hb] at h
            cases wb <;> simp at h
            exact h.2.symm
        · cases h

/-- what is proved for every statement of the fragment: if the reference executes it, it falls through
    (no break / continue / return), keeps the set of variables, and the VM running the generated code reaches
    the end of that code in a state that represents the reference's new state -/
def SimS (m : Module) (ce : CE) (p : Program) (L : Nat) (st : Stmt) : Prop :=
  ∀ (cs cs' : CS) (code : List PI) (d fuel : Nat) (loc loc' : Sem.Locals) (g g' : Sem.GState) (fl : Sem.Flow)
    (s : VmState) (fr : Frame) (frs : List Frame) (bs : Bytes),
    cStmt ce cs d st = .ok (cs', code) →
    Sem.execStmt Sem.vmCfg p fuel loc g st = .ok (fl, loc', g') →
    s.frames = fr :: frs → encodeAll code = some bs → CodeAt m s.curFn s.ip bs → StInv ce cs loc g fr L s →
    fl = .next ∧ loc'.length = loc.length ∧
      ∃ n s', runN m n s = (s', .running) ∧ s'.ip = s.ip + bs.length ∧ s'.frames = s.frames ∧ s'.curFn = s.curFn ∧
        StInv ce cs loc' g' fr L s'

theorem sim_set (m : Module) (ce : CE) (p : Program) (L : Nat) (x : String) (e : Expr) (he : PureE e) :
    SimS m ce p L (.setS x e) := by
  intro cs cs' code d fuel loc loc' g g' fl s fr frs bs hc hs hfr henc hat hinv
  cases fuel with
  | zero => simp [Sem.execStmt] at hs
  | succ f =>
    simp only [Sem.execStmt] at hs
    cases hev : Sem.evalExpr Sem.vmCfg p f loc g e with
    | error er => simp [hev] at hs
    | ok r =>
      obtain ⟨w, g1⟩ := r
      simp only [hev] at hs
      cases hu : Sem.update loc x w with
      | none =>
        simp only [hu] at hs
        have hg1 := pure_eval_state _ p e he f loc g g1 w hev
        subst hg1
        have : Sem.update g1.globals x w = none := by rw [hinv.noglob]; rfl
        simp [this] at hs
      | some loc1 =>
        simp only [hu, Except.ok.injEq, Prod.mk.injEq] at hs
        obtain ⟨rfl, rfl, rfl⟩ := hs
        have hsome : (Sem.lookup? loc x).isSome := (update_some_iff loc x w).mp ⟨loc1, hu⟩
        obtain ⟨wold, hwold⟩ := Option.isSome_iff_exists.mp hsome
        obtain ⟨k, vold, hk, hslot, hvold, hk16, hk32⟩ := hinv.env.locals x wold hwold
        obtain ⟨c, hce, rfl⟩ := cStmt_set_inv hc hk
        obtain ⟨bc, bst, hbc, hbst, rfl⟩ := encodeAll_append _ _ _ henc
        obtain ⟨_, rfl, v, n, hv, hrun⟩ := cExpr_sim m ce p e he cs cs' c f loc g g1 w s fr frs bc hce hev hfr hbc hat.left hinv.env
        have hlt : fr.stackBase + k < s.stack.length := by
          rcases List.getElem?_eq_some_iff.mp hslot with ⟨hh, _⟩; exact hh
        refine ⟨rfl, update_length loc loc1 x w hu, n + 1, advS s (s.ip + bc.length + bst.length) (s.stack.set (fr.stackBase + k) v), ?_, ?_, rfl, rfl, ?_⟩
        · rw [runN_add m n 1 s _ hrun]
          exact exec1_adv (s.ip + bc.length) _ _ hfr hat.right hbst (wf1 _ .u16 _ (by decide) (by show k < 256 ^ 2; omega)) rfl
            (fun c hcst => ed_store_local m fr c _ k s.stack v vold hk32 hcst hlt hslot hvold.inert)
        · simp [List.length_append, Nat.add_assoc]
        · have hul := update_lookup loc loc1 x w hu
          obtain ⟨lx, hlx, hlxn⟩ := localFind_name cs x k hk
          refine ⟨⟨?_, ?_⟩, ?_, ?_, hinv.out, ?_, hinv.noglob⟩
          · intro y wy hy
            rw [hul y] at hy
            by_cases hxy : x == y
            · have : x = y := by simpa using hxy
              subst this
              simp only [beq_self_eq_true, if_true, Option.some.injEq] at hy
              subst hy
              exact ⟨k, v, hk, by simp [hlt], hv, hk16, hk32⟩
            · simp only [hxy, Bool.false_eq_true, if_false] at hy
              obtain ⟨ky, vy, h1, h2, h3, h4, h5⟩ := hinv.env.locals y wy hy
              obtain ⟨ly, hly, hlyn⟩ := localFind_name cs y ky h1
              have hne : ky ≠ k := by
                intro e; subst e
                rw [hlx] at hly; cases hly
                rw [hlxn] at hlyn; subst hlyn; simp at hxy
              refine ⟨ky, vy, h1, ?_, h3, h4, h5⟩
              show (s.stack.set (fr.stackBase + k) v)[fr.stackBase + ky]? = some vy
              rw [List.getElem?_set_ne (by omega)]; exact h2
          · intro y wy _ hy
            rw [hinv.noglob] at hy; simp [Sem.lookup?] at hy
          · show (s.stack.set (fr.stackBase + k) v).length = fr.stackBase + L
            rw [List.length_set]; exact hinv.len
          · intro j u hj hu'
            have hu2 : (s.stack.set (fr.stackBase + k) v)[j]? = some u := hu'
            by_cases hjk : j = fr.stackBase + k
            · subst hjk
              rw [List.getElem?_set_self hlt] at hu2
              cases hu2; exact hv.inert
            · rw [List.getElem?_set_ne (by omega)] at hu2
              exact hinv.inert j u hj hu2
          · intro y ky hy
            rw [hul y]
            by_cases hxy : x == y
            · simp [hxy]
            · simp only [hxy, Bool.false_eq_true, if_false]; exact hinv.closed y ky hy

/-- one instruction that changes stack and output, executed after a prefix of the code -/
theorem exec1_out {m : Module} {s : VmState} {fr : Frame} {frs : List Frame} {op : Opc} {args : List Nat} {bb : Bytes}
    (ip1 : Nat) (stk1 st' : List Val) (extra : Bytes) (hfr : s.frames = fr :: frs)
    (hc : CodeAt m s.curFn ip1 bb) (he : encodeAll [ins op args] = some bb)
    (hwf : Instr.wf ⟨op.toByte, args⟩) (hctl : Opc.isControl op = false)
    (hx : ∀ c : Core, c.stack = stk1 → execData' m fr c ip1 op args = ({ c with stack := st', out := c.out ++ extra }, .running)) :
    runN m 1 (advS s ip1 stk1) =
      ({ s with toCore := { s.toCore with ip := ip1 + bb.length, stack := st', out := s.out ++ extra } }, .running) := by
  have := exec1 (s := advS s ip1 stk1) (fr := fr) (frs := frs) (by simpa using hfr) (by simpa using hc) he hwf hctl _
    (hx { (advS s ip1 stk1).toCore with ip := ip1 + bb.length } rfl)
  rw [this]; rfl

theorem sim_print (m : Module) (ce : CE) (p : Program) (L : Nat) (ln : Bool) (e : Expr) (he : PureE e) :
    SimS m ce p L (.printS ln e) := by
  intro cs cs' code d fuel loc loc' g g' fl s fr frs bs hc hs hfr henc hat hinv
  cases fuel with
  | zero => simp [Sem.execStmt] at hs
  | succ f =>
    simp only [Sem.execStmt] at hs
    cases hev : Sem.evalExpr Sem.vmCfg p f loc g e with
    | error er => simp [hev] at hs
    | ok r =>
      obtain ⟨w, g1⟩ := r
      simp only [hev, Except.ok.injEq, Prod.mk.injEq] at hs
      obtain ⟨rfl, rfl, rfl⟩ := hs
      obtain ⟨c, hce, rfl⟩ := cStmt_print_inv hc
      obtain ⟨bc, bp, hbc, hbp, rfl⟩ := encodeAll_append _ _ _ henc
      obtain ⟨_, rfl, v, n, hv, hrun⟩ := cExpr_sim m ce p e he cs cs' c f loc g g1 w s fr frs bc hce hev hfr hbc hat.left hinv.env
      refine ⟨rfl, rfl, n + 1,
        { s with toCore := { s.toCore with ip := s.ip + bc.length + bp.length, stack := s.stack,
                                           out := s.out ++ (Sem.fmtSVal w ++ (if ln then [10] else [])) } }, ?_, ?_, ?_, ?_, ?_⟩
      · rw [runN_add m n 1 s _ hrun]
        exact exec1_out (s.ip + bc.length) _ s.stack (Sem.fmtSVal w ++ (if ln then [10] else [])) hfr hat.right hbp
          (by cases ln <;> exact wf0 _ (by decide)) (by cases ln <;> rfl)
          (fun c hcst => by rw [ed_print m fr c _ s.stack w v ln hv hcst, List.append_assoc])
      · simp [List.length_append, Nat.add_assoc]
      · rfl
      · rfl
      · exact ⟨⟨hinv.env.locals, hinv.env.globals⟩, hinv.len, hinv.inert, by simp [hinv.out, List.append_assoc], hinv.closed, hinv.noglob⟩

theorem ed_assert_true (m : Module) (fr : Frame) (c : Core) (is : Nat) (st : List Val) (hs : c.stack = st ++ [.bool true]) :
    execData' m fr c is .ASSERT [] = ({ c with stack := st }, .running) := by
  simp only [execData', pop_append c st _ hs, truthy, if_true]
  rw [core_release_scalar _ _ rfl]
  rfl

theorem ed_pop (m : Module) (fr : Frame) (c : Core) (is : Nat) (st : List Val) (v : Val) (hv : Val.inert v) (hs : c.stack = st ++ [v]) :
    execData' m fr c is .POP [] = ({ c with stack := st }, .running) := by
  simp only [execData', pop_append c st _ hs]
  rw [core_release_inert _ _ hv]
  rfl

theorem sim_assert (m : Module) (ce : CE) (p : Program) (L : Nat) (e : Expr) (he : PureE e) :
    SimS m ce p L (.assertS e) := by
  intro cs cs' code d fuel loc loc' g g' fl s fr frs bs hc hs hfr henc hat hinv
  cases fuel with
  | zero => simp [Sem.execStmt] at hs
  | succ f =>
    simp only [Sem.execStmt] at hs
    cases hev : Sem.evalExpr Sem.vmCfg p f loc g e with
    | error er => simp [hev] at hs
    | ok r =>
      obtain ⟨w, g1⟩ := r
      simp only [hev] at hs
      obtain ⟨c, hce, rfl⟩ := cStmt_assert_inv hc
      obtain ⟨bc, bp, hbc, hbp, rfl⟩ := encodeAll_append _ _ _ henc
      obtain ⟨_, rfl, v, n, hv, hrun⟩ := cExpr_sim m ce p e he cs cs' c f loc g g1 w s fr frs bc hce hev hfr hbc hat.left hinv.env
      cases w with
      | bool b =>
        cases b with
        | false => simp at hs
        | true =>
          simp only [Except.ok.injEq, Prod.mk.injEq] at hs
          obtain ⟨rfl, rfl, rfl⟩ := hs
          have := hv.of_bool; subst this
          refine ⟨rfl, rfl, n + 1, advS s (s.ip + bc.length + bp.length) s.stack, ?_, ?_, rfl, rfl, ?_⟩
          · rw [runN_add m n 1 s _ hrun]
            exact exec1_adv (s.ip + bc.length) _ _ hfr hat.right hbp (wf0 _ (by decide)) rfl
              (fun c0 hcst => ed_assert_true m fr c0 _ s.stack hcst)
          · simp [List.length_append, Nat.add_assoc]
          · exact ⟨hinv.env, hinv.len, hinv.inert, hinv.out, hinv.closed, hinv.noglob⟩
      | _ => simp at hs

theorem sim_exprS (m : Module) (ce : CE) (p : Program) (L : Nat) (e : Expr) (he : PureE e) :
    SimS m ce p L (.exprS e) := by
  intro cs cs' code d fuel loc loc' g g' fl s fr frs bs hc hs hfr henc hat hinv
  cases fuel with
  | zero => simp [Sem.execStmt] at hs
  | succ f =>
    simp only [Sem.execStmt] at hs
    cases hev : Sem.evalExpr Sem.vmCfg p f loc g e with
    | error er => simp [hev] at hs
    | ok r =>
      obtain ⟨w, g1⟩ := r
      simp only [hev, Except.ok.injEq, Prod.mk.injEq] at hs
      obtain ⟨rfl, rfl, rfl⟩ := hs
      obtain ⟨c, hce, rfl⟩ := cStmt_expr_inv hc
      obtain ⟨bc, bp, hbc, hbp, rfl⟩ := encodeAll_append _ _ _ henc
      obtain ⟨_, rfl, v, n, hv, hrun⟩ := cExpr_sim m ce p e he cs cs' c f loc g g1 w s fr frs bc hce hev hfr hbc hat.left hinv.env
      refine ⟨rfl, rfl, n + 1, advS s (s.ip + bc.length + bp.length) s.stack, ?_, ?_, rfl, rfl, ?_⟩
      · rw [runN_add m n 1 s _ hrun]
        exact exec1_adv (s.ip + bc.length) _ _ hfr hat.right hbp (wf0 _ (by decide)) rfl
          (fun c0 hcst => ed_pop m fr c0 _ s.stack v hv.inert hcst)
      · simp [List.length_append, Nat.add_assoc]
      · exact ⟨hinv.env, hinv.len, hinv.inert, hinv.out, hinv.closed, hinv.noglob⟩

/-- the same statement for a statement list (`cStmts` / `execStmts`) -/
def SimL (m : Module) (ce : CE) (p : Program) (L : Nat) (ss : List Stmt) : Prop :=
  ∀ (cs cs' : CS) (code : List PI) (d fuel : Nat) (loc loc' : Sem.Locals) (g g' : Sem.GState) (fl : Sem.Flow)
    (s : VmState) (fr : Frame) (frs : List Frame) (bs : Bytes),
    cStmts ce cs d ss = .ok (cs', code) →
    Sem.execStmts Sem.vmCfg p fuel loc g ss = .ok (fl, loc', g') →
    s.frames = fr :: frs → encodeAll code = some bs → CodeAt m s.curFn s.ip bs → StInv ce cs loc g fr L s →
    fl = .next ∧ loc'.length = loc.length ∧
      ∃ n s', runN m n s = (s', .running) ∧ s'.ip = s.ip + bs.length ∧ s'.frames = s.frames ∧ s'.curFn = s.curFn ∧
        StInv ce cs loc' g' fr L s'

theorem sim_stmts (m : Module) (ce : CE) (p : Program) (L : Nat) (ss : List Stmt)
    (ih : ∀ st ∈ ss, SimS m ce p L st) (hcf : ∀ st ∈ ss, CompF ce st) : SimL m ce p L ss := by
  induction ss with
  | nil =>
    intro cs cs' code d fuel loc loc' g g' fl s fr frs bs hc hs hfr henc hat hinv
    rw [cStmts_nil] at hc
    cases hc
    simp only [encodeAll, Option.some.injEq] at henc
    subst henc
    cases fuel with
    | zero => simp [Sem.execStmts] at hs
    | succ f =>
      simp only [Sem.execStmts, Except.ok.injEq, Prod.mk.injEq] at hs
      obtain ⟨rfl, rfl, rfl⟩ := hs
      exact ⟨rfl, rfl, 0, s, rfl, by simp, rfl, rfl, hinv⟩
  | cons st r ihr =>
    intro cs cs' code d fuel loc loc' g g' fl s fr frs bs hc hs hfr henc hat hinv
    obtain ⟨cs1, c1, c2, h1, h2, rfl⟩ := cStmts_cons_inv hc
    obtain ⟨rfl, _⟩ := hcf st (by simp) cs cs1 d c1 h1
    obtain ⟨b1, b2, hb1, hb2, rfl⟩ := encodeAll_append _ _ _ henc
    cases fuel with
    | zero => simp [Sem.execStmts] at hs
    | succ f =>
      simp only [Sem.execStmts] at hs
      cases hst : Sem.execStmt Sem.vmCfg p f loc g st with
      | error er => simp [hst] at hs
      | ok res =>
        obtain ⟨fl1, loc1, g1⟩ := res
        obtain ⟨rfl, hl1, n1, s1, hrun1, hip1, hfr1, hcf1, hinv1⟩ :=
          ih st (by simp) cs1 cs1 c1 d f loc loc1 g g1 fl1 s fr frs b1 h1 hst hfr hb1 hat.left hinv
        simp only [hst] at hs
        have hat2 : CodeAt m s1.curFn s1.ip b2 := by rw [hcf1, hip1]; exact hat.right
        obtain ⟨rfl, hl2, n2, s2, hrun2, hip2, hfr2, hcf2, hinv2⟩ :=
          ihr (fun x hx => ih x (by simp [hx])) (fun x hx => hcf x (by simp [hx]))
            cs1 cs' c2 d f loc1 loc' g1 g' fl s1 fr frs b2 h2 hs (by rw [hfr1]; exact hfr) hb2 hat2 hinv1
        refine ⟨rfl, by omega, n1 + n2, s2, ?_, ?_, by rw [hfr2, hfr1], by rw [hcf2, hcf1], hinv2⟩
        · rw [runN_add m n1 n2 s s1 hrun1]; exact hrun2
        · rw [hip2, hip1]; simp [List.length_append, Nat.add_assoc]

/-- … and for a block (`cBlock` / `execBlock`) -/
def SimB (m : Module) (ce : CE) (p : Program) (L : Nat) (ss : List Stmt) : Prop :=
  ∀ (cs cs' : CS) (code : List PI) (d fuel : Nat) (loc loc' : Sem.Locals) (g g' : Sem.GState) (fl : Sem.Flow)
    (s : VmState) (fr : Frame) (frs : List Frame) (bs : Bytes),
    cBlock ce cs d ss = .ok (cs', code) →
    Sem.execBlock Sem.vmCfg p fuel loc g ss = .ok (fl, loc', g') →
    s.frames = fr :: frs → encodeAll code = some bs → CodeAt m s.curFn s.ip bs → StInv ce cs loc g fr L s →
    fl = .next ∧ loc'.length = loc.length ∧
      ∃ n s', runN m n s = (s', .running) ∧ s'.ip = s.ip + bs.length ∧ s'.frames = s.frames ∧ s'.curFn = s.curFn ∧
        StInv ce cs loc' g' fr L s'

theorem sim_block (m : Module) (ce : CE) (p : Program) (L : Nat) (ss : List Stmt)
    (ih : ∀ st ∈ ss, SimS m ce p L st) (hcf : ∀ st ∈ ss, CompF ce st) : SimB m ce p L ss := by
  intro cs cs' code d fuel loc loc' g g' fl s fr frs bs hc hs hfr henc hat hinv
  obtain ⟨cs1, h1, _⟩ := cBlock_inv hc
  cases fuel with
  | zero => simp [Sem.execBlock] at hs
  | succ f =>
    simp only [Sem.execBlock] at hs
    cases hst : Sem.execStmts Sem.vmCfg p f loc g ss with
    | error er => simp [hst] at hs
    | ok res =>
      obtain ⟨fl1, loc1, g1⟩ := res
      simp only [hst, Except.ok.injEq, Prod.mk.injEq] at hs
      obtain ⟨rfl, rfl, rfl⟩ := hs
      obtain ⟨rfl, hl, n, s', hrun, hip, hfr', hcf', hinv'⟩ :=
        sim_stmts m ce p L ss ih hcf cs cs1 code d f loc loc1 g g1 fl1 s fr frs bs h1 hst hfr henc hat hinv
      have hd : loc1.length - loc.length = 0 := by omega
      rw [hd, List.drop_zero]
      exact ⟨rfl, hl, n, s', hrun, hip, hfr', hcf', hinv'⟩

/-- evaluate a condition and take the conditional jump that follows it -/
theorem cond_jump {m : Module} {s : VmState} {fr : Frame} {frs : List Frame} (ce : CE) (p : Program) (c : Expr) (hpc : PureE c)
    (cs cs1 : CS) (cc : List PI) (f : Nat) (loc : Sem.Locals) (g g1 : Sem.GState) (b : Bool) (bcc bj : Bytes) (d : Nat)
    (hce : cExpr ce cs c = .ok (cs1, cc)) (hev : Sem.evalExpr Sem.vmCfg p f loc g c = .ok (.bool b, g1))
    (hfr : s.frames = fr :: frs) (hbcc : encodeAll cc = some bcc)
    (hbj : encodeAll [ins .JMP_FALSE [pat32 (d : Int)]] = some bj) (hat : CodeAt m s.curFn s.ip (bcc ++ bj))
    (henv : EnvOK ce cs loc g fr.stackBase s.stack s.globals) (hbound : s.ip + bcc.length + d < 2147483648) :
    g1 = g ∧ bj.length = 5 ∧
      ∃ n, runN m n s = (advS s (if b then s.ip + bcc.length + 5 else s.ip + bcc.length + d) s.stack, .running) := by
  obtain ⟨_, rfl, v, n, hv, hrun⟩ := cExpr_sim m ce p c hpc cs cs1 cc f loc g g1 (.bool b) s fr frs bcc hce hev hfr hbcc hat.left henv
  have := hv.of_bool; subst this
  have lj : bj.length = 5 := by rw [single_length _ _ _ hbj]; rfl
  refine ⟨rfl, lj, n + 1, ?_⟩
  rw [runN_add m n 1 s _ hrun]
  apply exec1_jmp (s.ip + bcc.length) _ _ s.stack hfr hat.right hbj
    (wf1 _ .i32 _ (by decide) (by show _ < 256 ^ 4; exact pat32_lt _)) rfl
  intro c0 hcst hcip
  rw [ed_jmp_false m fr c0 _ d s.stack b hbound hcst, hcip, lj]

theorem sim_if1 (m : Module) (ce : CE) (p : Program) (L : Nat) (c : Expr) (t : List Stmt) (bf : Bool) (hpc : PureE c)
    (iht : SimB m ce p L t) (hcft : ∀ st ∈ t, CompF ce st) : SimS m ce p L (.ifS c t none bf) := by
  intro cs cs' code d fuel loc loc' g g' fl s fr frs bs hc hs hfr henc hat hinv
  obtain ⟨cs1, cc, cs2, ct, h1, h2, h3⟩ := cStmt_if_inv hc
  have h3' : cs' = cs2 ∧ code = cc ++ [ins .JMP_FALSE [pat32 (5 + codeSize ct)]] ++ ct := by
    rcases h3 with ⟨_, ha, hb⟩ | ⟨eb, cel, he, _, _⟩
    · exact ⟨ha, hb⟩
    · cases he
  obtain ⟨rfl, rfl⟩ := h3'
  have e1 := cExpr_pure_cs ce c hpc cs _ cc h1
  subst e1
  obtain ⟨b12, bt, hb12, hbt, rfl⟩ := encodeAll_append _ _ _ henc
  obtain ⟨bcc, bj, hbcc, hbj, rfl⟩ := encodeAll_append _ _ _ hb12
  have hd : (5 + (codeSize ct : Int)) = ((5 + codeSize ct : Nat) : Int) := by omega
  rw [hd] at hbj
  have lt : bt.length = codeSize ct := encodeAll_length _ _ hbt
  have hbound := hat.bound
  simp only [List.length_append] at hbound
  cases fuel with
  | zero => simp [Sem.execStmt] at hs
  | succ f =>
    simp only [Sem.execStmt] at hs
    cases hev : Sem.evalExpr Sem.vmCfg p f loc g c with
    | error er => simp [hev] at hs
    | ok r =>
      obtain ⟨w, g1⟩ := r
      simp only [hev] at hs
      cases w with
      | bool b =>
        have lj0 : bj.length = 5 := by rw [single_length _ _ _ hbj]; rfl
        obtain ⟨rfl, lj, n1, hrun1⟩ := cond_jump ce p c hpc cs1 cs1 cc f loc g g1 b bcc bj (5 + codeSize ct) h1 hev hfr hbcc hbj
          hat.left hinv.env (by omega)
        cases b with
        | false =>
          simp only [Except.ok.injEq, Prod.mk.injEq] at hs
          obtain ⟨rfl, rfl, rfl⟩ := hs
          refine ⟨rfl, rfl, n1, _, hrun1, ?_, rfl, rfl, ?_⟩
          · simp [List.length_append]; omega
          · exact ⟨hinv.env, hinv.len, hinv.inert, hinv.out, hinv.closed, hinv.noglob⟩
        | true =>
          simp only at hs
          simp only [if_true] at hrun1
          have hat2 : CodeAt m (advS s (s.ip + bcc.length + 5) s.stack).curFn (advS s (s.ip + bcc.length + 5) s.stack).ip bt := by
            have := hat.right
            simpa [List.length_append, lj, Nat.add_assoc] using this
          obtain ⟨rfl, hl, n2, s2, hrun2, hip2, hfr2, hcf2, hinv2⟩ :=
            iht cs1 cs' ct d f loc loc' g1 g' fl (advS s (s.ip + bcc.length + 5) s.stack) fr frs bt h2 hs (by simpa using hfr) hbt hat2
              ⟨hinv.env, hinv.len, hinv.inert, hinv.out, hinv.closed, hinv.noglob⟩
          refine ⟨rfl, hl, n1 + n2, s2, ?_, ?_, by rw [hfr2]; rfl, by rw [hcf2]; rfl, hinv2⟩
          · rw [runN_add m n1 n2 s _ hrun1]; exact hrun2
          · rw [hip2]; simp [List.length_append]; omega
      | _ => simp at hs

theorem sim_if2 (m : Module) (ce : CE) (p : Program) (L : Nat) (c : Expr) (t eb : List Stmt) (bf : Bool) (hpc : PureE c)
    (iht : SimB m ce p L t) (ihe : SimB m ce p L eb) (hcft : ∀ st ∈ t, CompF ce st) :
    SimS m ce p L (.ifS c t (some eb) bf) := by
  intro cs cs' code d fuel loc loc' g g' fl s fr frs bs hc hs hfr henc hat hinv
  obtain ⟨cs1, cc, cs2, ct, h1, h2, h3⟩ := cStmt_if_inv hc
  have h3' : ∃ cel, cBlock ce cs2 d eb = .ok (cs', cel) ∧
      code = cc ++ [ins .JMP_FALSE [pat32 (5 + codeSize ct + 5)]] ++ ct ++ [ins .JMP [pat32 (5 + codeSize cel)]] ++ cel := by
    rcases h3 with ⟨he, _, _⟩ | ⟨eb', cel, he, ha, hb⟩
    · cases he
    · cases he; exact ⟨cel, ha, hb⟩
  obtain ⟨cel, h4, rfl⟩ := h3'
  have e1 := cExpr_pure_cs ce c hpc cs _ cc h1
  subst e1
  obtain ⟨e2, _⟩ := cBlock_compF ce t hcft cs1 cs2 d ct h2
  subst e2
  obtain ⟨b1234, bel, hb1234, hbel, rfl⟩ := encodeAll_append _ _ _ henc
  obtain ⟨b123, bm, hb123, hbm, rfl⟩ := encodeAll_append _ _ _ hb1234
  obtain ⟨b12, bt, hb12, hbt, rfl⟩ := encodeAll_append _ _ _ hb123
  obtain ⟨bcc, bj, hbcc, hbj, rfl⟩ := encodeAll_append _ _ _ hb12
  have hd : (5 + (codeSize ct : Int) + 5) = ((5 + codeSize ct + 5 : Nat) : Int) := by omega
  rw [hd] at hbj
  have hd2 : (5 + (codeSize cel : Int)) = ((5 + codeSize cel : Nat) : Int) := by omega
  rw [hd2] at hbm
  have lt : bt.length = codeSize ct := encodeAll_length _ _ hbt
  have le : bel.length = codeSize cel := encodeAll_length _ _ hbel
  have lm : bm.length = 5 := by rw [single_length _ _ _ hbm]; rfl
  have hbound := hat.bound
  simp only [List.length_append] at hbound
  have hat' : CodeAt m s.curFn s.ip (bcc ++ (bj ++ (bt ++ (bm ++ bel)))) := by simpa [List.append_assoc] using hat
  have hatcj : CodeAt m s.curFn s.ip (bcc ++ bj) := by
    have := hat.left.left.left; exact this
  cases fuel with
  | zero => simp [Sem.execStmt] at hs
  | succ f =>
    simp only [Sem.execStmt] at hs
    cases hev : Sem.evalExpr Sem.vmCfg p f loc g c with
    | error er => simp [hev] at hs
    | ok r =>
      obtain ⟨w, g1⟩ := r
      simp only [hev] at hs
      cases w with
      | bool b =>
        have lj0 : bj.length = 5 := by rw [single_length _ _ _ hbj]; rfl
        obtain ⟨rfl, lj, n1, hrun1⟩ := cond_jump ce p c hpc cs2 cs2 cc f loc g g1 b bcc bj (5 + codeSize ct + 5) h1 hev hfr hbcc hbj
          hatcj hinv.env (by omega)
        have hinv0 : ∀ ip, StInv ce cs2 loc g1 fr L (advS s ip s.stack) := fun ip =>
          ⟨hinv.env, hinv.len, hinv.inert, hinv.out, hinv.closed, hinv.noglob⟩
        cases b with
        | false =>
          simp only at hs
          simp only [Bool.false_eq_true, if_false] at hrun1
          have hat2 : CodeAt m (advS s (s.ip + bcc.length + (5 + codeSize ct + 5)) s.stack).curFn
              (advS s (s.ip + bcc.length + (5 + codeSize ct + 5)) s.stack).ip bel := by
            have := hat'.right.right.right.right
            have e : s.ip + bcc.length + bj.length + bt.length + bm.length = s.ip + bcc.length + (5 + codeSize ct + 5) := by omega
            rw [e] at this; exact this
          obtain ⟨rfl, hl, n2, s2, hrun2, hip2, hfr2, hcf2, hinv2⟩ :=
            ihe cs2 cs' cel d f loc loc' g1 g' fl _ fr frs bel h4 hs (by simpa using hfr) hbel hat2 (hinv0 _)
          refine ⟨rfl, hl, n1 + n2, s2, ?_, ?_, by rw [hfr2]; rfl, by rw [hcf2]; rfl, hinv2⟩
          · rw [runN_add m n1 n2 s _ hrun1]; exact hrun2
          · rw [hip2]; simp [List.length_append]; omega
        | true =>
          simp only at hs
          simp only [if_true] at hrun1
          have hat2 : CodeAt m (advS s (s.ip + bcc.length + 5) s.stack).curFn (advS s (s.ip + bcc.length + 5) s.stack).ip bt := by
            have := hat'.right.right.left
            have e : s.ip + bcc.length + bj.length = s.ip + bcc.length + 5 := by omega
            rw [e] at this; exact this
          obtain ⟨rfl, hl, n2, s2, hrun2, hip2, hfr2, hcf2, hinv2⟩ :=
            iht cs2 cs2 ct d f loc loc' g1 g' fl _ fr frs bt h2 hs (by simpa using hfr) hbt hat2 (hinv0 _)
          -- the jump over the else branch
          have hs2 : s2 = advS s2 s2.ip s2.stack := rfl
          have hatm : CodeAt m s2.curFn s2.ip bm := by
            have := hat'.right.right.right.left
            rw [hcf2, hip2]
            have e : s.ip + bcc.length + bj.length + bt.length = s.ip + bcc.length + 5 + bt.length := by omega
            rw [e] at this; exact this
          have hjm : runN m 1 s2 = (advS s2 (s2.ip + (5 + codeSize cel)) s2.stack, .running) := by
            rw [hs2]
            apply exec1_jmp s2.ip _ s2.stack s2.stack (by rw [hfr2]; simpa using hfr) hatm hbm
              (wf1 _ .i32 _ (by decide) (by show _ < 256 ^ 4; exact pat32_lt _)) rfl
            intro c0 hcst _
            rw [ed_jmp m fr c0 _ (5 + codeSize cel) (by rw [hip2]; simp only [advS_ip]; omega)]
            exact congrArg (·, DOutcome.running) (ip_as_with c0 _ _ hcst)
          refine ⟨rfl, hl, n1 + (n2 + 1), advS s2 (s2.ip + (5 + codeSize cel)) s2.stack, ?_, ?_, by rw [advS_frames, hfr2]; rfl,
            by rw [advS_curFn, hcf2]; rfl, ?_⟩
          · rw [runN_add m n1 _ s _ hrun1, runN_add m n2 1 _ _ hrun2]; exact hjm
          · simp only [advS_ip, hip2]; simp [List.length_append]; omega
          · exact ⟨hinv2.env, hinv2.len, hinv2.inert, hinv2.out, hinv2.closed, hinv2.noglob⟩
      | _ => simp at hs

theorem sim_while (m : Module) (ce : CE) (p : Program) (L : Nat) (c : Expr) (b : List Stmt) (hpc : PureE c)
    (ihb : SimB m ce p L b) (hcfb : ∀ st ∈ b, CompF ce st) : SimS m ce p L (.whileS c b) := by
  intro cs cs' code d fuel loc loc' g g' fl s fr frs bs hc hs hfr henc hat hinv
  obtain ⟨cs1, cc, cb, h1, h2, rfl⟩ := cStmt_while_inv hc
  have e1 := cExpr_pure_cs ce c hpc cs _ cc h1
  subst e1
  obtain ⟨e2, nb⟩ := cBlock_compF ce b hcfb cs1 cs' (d + 1) cb h2
  subst e2
  rw [resolve_noPH _ _ _ _ nb] at henc
  obtain ⟨b123, bm, hb123, hbm, rfl⟩ := encodeAll_append _ _ _ henc
  obtain ⟨b12, bb, hb12, hbb, rfl⟩ := encodeAll_append _ _ _ hb123
  obtain ⟨bcc, bj, hbcc, hbj, rfl⟩ := encodeAll_append _ _ _ hb12
  have hd : (5 + (codeSize cb : Int) + 5) = ((5 + codeSize cb + 5 : Nat) : Int) := by omega
  rw [hd] at hbj
  have lb : bb.length = codeSize cb := encodeAll_length _ _ hbb
  have lc : bcc.length = codeSize cc := encodeAll_length _ _ hbcc
  have lm : bm.length = 5 := by rw [single_length _ _ _ hbm]; rfl
  have lj : bj.length = 5 := by rw [single_length _ _ _ hbj]; rfl
  have hbound := hat.bound
  simp only [List.length_append] at hbound
  have hat' : CodeAt m s.curFn s.ip (bcc ++ (bj ++ (bb ++ bm))) := by simpa [List.append_assoc] using hat
  have hatcj : CodeAt m s.curFn s.ip (bcc ++ bj) := hat.left.left
  -- the loop, by induction on the reference's fuel
  have loop : ∀ (k : Nat) (loc0 loc1 : Sem.Locals) (g0 g1 : Sem.GState) (fl0 : Sem.Flow) (t : VmState),
      t.ip = s.ip → t.curFn = s.curFn → t.frames = fr :: frs → StInv ce cs' loc0 g0 fr L t →
      Sem.execWhile Sem.vmCfg p k loc0 g0 c b = .ok (fl0, loc1, g1) →
      fl0 = .next ∧ loc1.length = loc0.length ∧
        ∃ n t', runN m n t = (t', .running) ∧ t'.ip = s.ip + (bcc.length + bj.length + bb.length + bm.length) ∧
          t'.frames = t.frames ∧ t'.curFn = t.curFn ∧ StInv ce cs' loc1 g1 fr L t' := by
    intro k
    induction k with
    | zero => intro loc0 loc1 g0 g1 fl0 t _ _ _ _ hw; simp [Sem.execWhile] at hw
    | succ k ihk =>
      intro loc0 loc1 g0 g1 fl0 t hip hcf htf hti hw
      simp only [Sem.execWhile] at hw
      cases hev : Sem.evalExpr Sem.vmCfg p k loc0 g0 c with
      | error er => simp [hev] at hw
      | ok r =>
        obtain ⟨w, ga⟩ := r
        simp only [hev] at hw
        cases w with
        | bool bv =>
          obtain ⟨rfl, _, n1, hrun1⟩ := cond_jump ce p c hpc cs' cs' cc k loc0 g0 ga bv bcc bj (5 + codeSize cb + 5) h1 hev htf hbcc hbj
            (by rw [hcf, hip]; exact hatcj) hti.env (by rw [hip]; omega)
          have hinv0 : ∀ ip, StInv ce cs' loc0 ga fr L (advS t ip t.stack) := fun ip =>
            ⟨hti.env, hti.len, hti.inert, hti.out, hti.closed, hti.noglob⟩
          cases bv with
          | false =>
            simp only [Except.ok.injEq, Prod.mk.injEq] at hw
            obtain ⟨rfl, rfl, rfl⟩ := hw
            simp only [Bool.false_eq_true, if_false] at hrun1
            refine ⟨rfl, rfl, n1, _, hrun1, ?_, rfl, rfl, hinv0 _⟩
            simp only [advS_ip, hip]; omega
          | true =>
            simp only at hw
            simp only [if_true] at hrun1
            cases hbk : Sem.execBlock Sem.vmCfg p k loc0 ga b with
            | error er => simp [hbk] at hw
            | ok rb =>
              obtain ⟨flb, locb, gb⟩ := rb
              have hatb : CodeAt m (advS t (t.ip + bcc.length + 5) t.stack).curFn (advS t (t.ip + bcc.length + 5) t.stack).ip bb := by
                have := hat'.right.right.left
                simp only [advS_curFn, advS_ip, hcf, hip]
                have e : s.ip + bcc.length + bj.length = s.ip + bcc.length + 5 := by omega
                rw [e] at this; exact this
              obtain ⟨rfl, hlb, n2, t2, hrun2, hip2, hfr2, hcf2, hinv2⟩ :=
                ihb cs' cs' cb (d + 1) k loc0 locb ga gb flb _ fr frs bb h2 hbk (by simpa using htf) hbb hatb (hinv0 _)
              simp only [hbk] at hw
              -- jump back to the loop head
              have hatm : CodeAt m t2.curFn t2.ip bm := by
                have := hat'.right.right.right
                rw [hcf2, hip2]
                simp only [advS_curFn, advS_ip, hcf, hip]
                have e : s.ip + bcc.length + bj.length + bb.length = s.ip + bcc.length + 5 + bb.length := by omega
                rw [e] at this; exact this
              have hjm : runN m 1 t2 = (advS t2 s.ip t2.stack, .running) := by
                have hs2 : t2 = advS t2 t2.ip t2.stack := rfl
                rw [hs2]
                apply exec1_jmp t2.ip _ t2.stack t2.stack (by rw [hfr2]; simpa using htf) hatm hbm
                  (wf1 _ .i32 _ (by decide) (by show _ < 256 ^ 4; exact pat32_lt _)) rfl
                intro c0 hcst _
                have hipv : t2.ip = s.ip + (codeSize cc + 5 + codeSize cb) := by
                  rw [hip2]; simp only [advS_ip, hip]; omega
                rw [ed_jmp_back m fr c0 _ (codeSize cc + 5 + codeSize cb) (by omega) (by omega)]
                have : t2.ip - (codeSize cc + 5 + codeSize cb) = s.ip := by omega
                rw [this]
                exact congrArg (·, DOutcome.running) (ip_as_with c0 _ _ hcst)
              obtain ⟨rfl, hl3, n3, t3, hrun3, hip3, hfr3, hcf3, hinv3⟩ :=
                ihk locb loc1 gb g1 fl0 (advS t2 s.ip t2.stack) rfl (by rw [advS_curFn, hcf2]; simpa using hcf)
                  (by rw [advS_frames, hfr2]; simpa using htf)
                  ⟨hinv2.env, hinv2.len, hinv2.inert, hinv2.out, hinv2.closed, hinv2.noglob⟩ hw
              refine ⟨rfl, by omega, n1 + (n2 + (1 + n3)), t3, ?_, hip3, ?_, ?_, hinv3⟩
              · rw [runN_add m n1 _ t _ hrun1, runN_add m n2 _ _ _ hrun2, runN_add m 1 n3 _ _ hjm]; exact hrun3
              · rw [hfr3, advS_frames, hfr2]; rfl
              · rw [hcf3, advS_curFn, hcf2]; rfl
        | _ => simp at hw
  cases fuel with
  | zero => simp [Sem.execStmt] at hs
  | succ f =>
    simp only [Sem.execStmt] at hs
    obtain ⟨h1', h2', n, s', h3', h4', h5', h6', h7'⟩ := loop f loc loc' g g' fl s rfl rfl hfr hinv hs
    exact ⟨h1', h2', n, s', h3', by rw [h4']; simp [List.length_append, Nat.add_assoc], h5', h6', h7'⟩

theorem sim_blockS (m : Module) (ce : CE) (p : Program) (L : Nat) (ss : List Stmt) (ih : SimB m ce p L ss) :
    SimS m ce p L (.block ss) := by
  intro cs cs' code d fuel loc loc' g g' fl s fr frs bs hc hs hfr henc hat hinv
  cases fuel with
  | zero => simp [Sem.execStmt] at hs
  | succ f =>
    simp only [Sem.execStmt] at hs
    -- `execStmt (f+1) (block ss) = execBlock f ss`
    exact ih cs cs' code d f loc loc' g g' fl s fr frs bs (cStmt_block_inv hc) hs hfr henc hat hinv

/-- **simulation for every statement of the fragment** -/
theorem stmtF_sim (m : Module) (ce : CE) (p : Program) (L : Nat) (st : Stmt) (hf : StmtF st) : SimS m ce p L st := by
  induction hf with
  | set x e he => exact sim_set m ce p L x e he
  | print ln e he => exact sim_print m ce p L ln e he
  | assert e he => exact sim_assert m ce p L e he
  | expr e he => exact sim_exprS m ce p L e he
  | if1 c t b hc ht iht =>
    exact sim_if1 m ce p L c t b hc (sim_block m ce p L t iht (fun st hst => stmtF_compF ce st (ht st hst)))
      (fun st hst => stmtF_compF ce st (ht st hst))
  | if2 c t eb b hc ht he iht ihe =>
    exact sim_if2 m ce p L c t eb b hc (sim_block m ce p L t iht (fun st hst => stmtF_compF ce st (ht st hst)))
      (sim_block m ce p L eb ihe (fun st hst => stmtF_compF ce st (he st hst)))
      (fun st hst => stmtF_compF ce st (ht st hst))
  | «while» c b hc hb ihb =>
    exact sim_while m ce p L c b hc (sim_block m ce p L b ihb (fun st hst => stmtF_compF ce st (hb st hst)))
      (fun st hst => stmtF_compF ce st (hb st hst))
  | block ss hss ih =>
    exact sim_blockS m ce p L ss (sim_block m ce p L ss ih (fun st hst => stmtF_compF ce st (hss st hst)))

/-! ### declarations at the level of the function body -/

theorem find?_congr' {α : Type} {l : List α} {p q : α → Bool} (h : ∀ a ∈ l, p a = q a) : l.find? p = l.find? q := by
  induction l with
  | nil => rfl
  | cons a r ih =>
    simp only [List.find?_cons, h a (by simp)]
    rw [ih (fun b hb => h b (by simp [hb]))]

theorem localFind_snoc (cs : CS) (l : Local) (y : String) :
    ({ cs with locals := cs.locals ++ [l] } : CS).localFind y =
      if (!l.hidden && l.name == y) then some cs.locals.length else cs.localFind y := by
  unfold CS.localFind
  simp only [List.length_append, List.length_cons, List.length_nil, Nat.zero_add]
  rw [List.range_succ, List.reverse_append]
  simp only [List.reverse_cons, List.reverse_nil, List.nil_append, List.cons_append, List.find?_cons]
  have hn : (cs.locals ++ [l])[cs.locals.length]? = some l := by simp
  simp only [hn]
  by_cases hp : (!l.hidden && l.name == y) = true
  · simp [hp]
  · simp only [hp, Bool.false_eq_true, if_false]
    apply find?_congr'
    intro j hj
    have hjl : j < cs.locals.length := by simpa using hj
    rw [List.getElem?_append_left hjl]

theorem localAdd_ok (cs cs2 : CS) (x : String) (ty : Option Ty) (k : Nat) (h : cs.localAdd x ty = .ok (cs2, k)) :
    k = cs.locals.length ∧ cs2 = { cs with locals := cs.locals ++ [{ name := x, ty := ty }] } ∧ cs.locals.length < cgMaxLocals := by
  unfold CS.localAdd at h
  split at h
  · cases h
  · cases h; exact ⟨rfl, rfl, by omega⟩

/-- `let x = e` at the level of the function body -/
theorem sim_let (m : Module) (ce : CE) (p : Program) (L : Nat) (x : String) (mu : Bool) (ty : Ty) (e : Expr) (he : PureE e)
    (cs cs' : CS) (code : List PI) (d fuel : Nat) (loc loc' : Sem.Locals) (g g' : Sem.GState) (fl : Sem.Flow)
    (s : VmState) (fr : Frame) (frs : List Frame) (bs : Bytes)
    (hc : cStmt ce cs d (.letS x mu ty e) = .ok (cs', code))
    (hs : Sem.execStmt Sem.vmCfg p fuel loc g (.letS x mu ty e) = .ok (fl, loc', g'))
    (hfr : s.frames = fr :: frs) (henc : encodeAll code = some bs) (hat : CodeAt m s.curFn s.ip bs)
    (hinv : StInv ce cs loc g fr L s) (hroom : cs.locals.length < L) (hb32 : fr.stackBase + L < 4294967296) :
    fl = .next ∧ cs'.locals.length = cs.locals.length + 1 ∧
      ∃ n s', runN m n s = (s', .running) ∧ s'.ip = s.ip + bs.length ∧ s'.frames = s.frames ∧ s'.curFn = s.curFn ∧
        StInv ce cs' loc' g' fr L s' := by
  obtain ⟨cs1, c, k, hce, hadd, rfl⟩ := cStmt_let_inv hc
  have e1 := cExpr_pure_cs ce e he cs cs1 c hce
  subst e1
  obtain ⟨rfl, rfl, hmax⟩ := localAdd_ok _ _ _ _ _ hadd
  cases fuel with
  | zero => simp [Sem.execStmt] at hs
  | succ f =>
    simp only [Sem.execStmt] at hs
    cases hev : Sem.evalExpr Sem.vmCfg p f loc g e with
    | error er => simp [hev] at hs
    | ok r =>
      obtain ⟨w, g1⟩ := r
      simp only [hev, Except.ok.injEq, Prod.mk.injEq] at hs
      obtain ⟨rfl, rfl, rfl⟩ := hs
      obtain ⟨bc, bst, hbc, hbst, rfl⟩ := encodeAll_append _ _ _ henc
      obtain ⟨_, rfl, v, n, hv, hrun⟩ := cExpr_sim m ce p e he cs1 cs1 c f loc g g1 w s fr frs bc hce hev hfr hbc hat.left hinv.env
      have hlt : fr.stackBase + cs1.locals.length < s.stack.length := by rw [hinv.len]; omega
      obtain ⟨old, hold⟩ : ∃ old, s.stack[fr.stackBase + cs1.locals.length]? = some old :=
        ⟨s.stack[fr.stackBase + cs1.locals.length], List.getElem?_eq_getElem hlt⟩
      have hk16 : cs1.locals.length < 65536 := by
        have : cgMaxLocals ≤ 65536 := by decide
        omega
      refine ⟨rfl, by simp, n + 1, advS s (s.ip + bc.length + bst.length) (s.stack.set (fr.stackBase + cs1.locals.length) v), ?_, ?_, rfl, rfl, ?_⟩
      · rw [runN_add m n 1 s _ hrun]
        exact exec1_adv (s.ip + bc.length) _ _ hfr hat.right hbst (wf1 _ .u16 _ (by decide) (by show _ < 256 ^ 2; omega)) rfl
          (fun c0 hcst => ed_store_local m fr c0 _ _ s.stack v old (by omega) hcst hlt hold (hinv.inert _ _ (by omega) hold))
      · simp [List.length_append, Nat.add_assoc]
      · refine ⟨⟨?_, ?_⟩, ?_, ?_, hinv.out, ?_, hinv.noglob⟩
        · intro y wy hy
          rw [localFind_snoc]
          simp only [Sem.lookup?, List.find?_cons] at hy
          by_cases hxy : x == y
          · simp only [hxy, Option.map_some, Option.some.injEq] at hy
            subst hy
            simp only [Bool.not_false, Bool.true_and, hxy, if_true]
            exact ⟨_, v, rfl, by simp [hlt], hv, hk16, by omega⟩
          · simp only [hxy, Bool.false_eq_true, if_false] at hy
            simp only [Bool.not_false, Bool.true_and, hxy, Bool.false_eq_true, if_false]
            obtain ⟨ky, vy, h1, h2, h3, h4, h5⟩ := hinv.env.locals y wy (by simpa [Sem.lookup?] using hy)
            obtain ⟨ly, hly, _⟩ := localFind_name cs1 y ky h1
            have hky : ky < cs1.locals.length := by
              rcases List.getElem?_eq_some_iff.mp hly with ⟨hh, _⟩; exact hh
            refine ⟨ky, vy, h1, ?_, h3, h4, h5⟩
            show (s.stack.set (fr.stackBase + cs1.locals.length) v)[fr.stackBase + ky]? = some vy
            rw [List.getElem?_set_ne (by omega)]; exact h2
        · intro y wy _ hy
          rw [hinv.noglob] at hy; simp [Sem.lookup?] at hy
        · show (s.stack.set (fr.stackBase + cs1.locals.length) v).length = fr.stackBase + L
          rw [List.length_set]; exact hinv.len
        · intro j u hj hu'
          have hu2 : (s.stack.set (fr.stackBase + cs1.locals.length) v)[j]? = some u := hu'
          by_cases hjk : j = fr.stackBase + cs1.locals.length
          · subst hjk
            rw [List.getElem?_set_self hlt] at hu2
            cases hu2; exact hv.inert
          · rw [List.getElem?_set_ne (by omega)] at hu2
            exact hinv.inert j u hj hu2
        · intro y ky hy
          rw [localFind_snoc] at hy
          simp only [Sem.lookup?, List.find?_cons]
          by_cases hxy : x == y
          · simp [hxy]
          · simp only [Bool.not_false, Bool.true_and, hxy, Bool.false_eq_true, if_false] at hy
            simp only [hxy, Bool.false_eq_true, if_false]
            have := hinv.closed y ky hy
            simpa [Sem.lookup?] using this

/-- a function body of the fragment: declarations `let x = e` and statements of `StmtF`, in any order -/
inductive BodyF : List Stmt → Prop
  | nil : BodyF []
  | letS (x : String) (mu : Bool) (ty : Ty) (e : Expr) (r : List Stmt) : PureE e → BodyF r → BodyF (.letS x mu ty e :: r)
  | stmt (st : Stmt) (r : List Stmt) : StmtF st → BodyF r → BodyF (st :: r)

theorem body_mono (ce : CE) (ss : List Stmt) (hb : BodyF ss) :
    ∀ (cs cs' : CS) (d : Nat) (code : List PI), cStmts ce cs d ss = .ok (cs', code) → cs.locals.length ≤ cs'.locals.length := by
  induction hb with
  | nil => intro cs cs' d code h; rw [cStmts_nil] at h; cases h; exact Nat.le_refl _
  | letS x mu ty e r he _ ih =>
    intro cs cs' d code h
    obtain ⟨cs1, c1, c2, h1, h2, rfl⟩ := cStmts_cons_inv h
    obtain ⟨cs0, c, k, hce, hadd, rfl⟩ := cStmt_let_inv h1
    have e1 := cExpr_pure_cs ce e he cs cs0 c hce
    subst e1
    obtain ⟨_, rfl, _⟩ := localAdd_ok _ _ _ _ _ hadd
    have := ih _ cs' d c2 h2
    simp at this; omega
  | stmt st r hst _ ih =>
    intro cs cs' d code h
    obtain ⟨cs1, c1, c2, h1, h2, rfl⟩ := cStmts_cons_inv h
    obtain ⟨rfl, _⟩ := stmtF_compF ce st hst cs cs1 d c1 h1
    exact ih cs1 cs' d c2 h2

/-- **simulation for a function body of the fragment** -/
theorem body_sim (m : Module) (ce : CE) (p : Program) (L : Nat) (ss : List Stmt) (hb : BodyF ss) :
    ∀ (cs cs' : CS) (code : List PI) (d fuel : Nat) (loc loc' : Sem.Locals) (g g' : Sem.GState) (fl : Sem.Flow)
      (s : VmState) (fr : Frame) (frs : List Frame) (bs : Bytes),
      cStmts ce cs d ss = .ok (cs', code) →
      Sem.execStmts Sem.vmCfg p fuel loc g ss = .ok (fl, loc', g') →
      s.frames = fr :: frs → encodeAll code = some bs → CodeAt m s.curFn s.ip bs → StInv ce cs loc g fr L s →
      cs'.locals.length ≤ L → fr.stackBase + L < 4294967296 →
      fl = .next ∧
        ∃ n s', runN m n s = (s', .running) ∧ s'.ip = s.ip + bs.length ∧ s'.frames = s.frames ∧ s'.curFn = s.curFn ∧
          StInv ce cs' loc' g' fr L s' := by
  induction hb with
  | nil =>
    intro cs cs' code d fuel loc loc' g g' fl s fr frs bs hc hs hfr henc hat hinv _ _
    rw [cStmts_nil] at hc
    cases hc
    simp only [encodeAll, Option.some.injEq] at henc
    subst henc
    cases fuel with
    | zero => simp [Sem.execStmts] at hs
    | succ f =>
      simp only [Sem.execStmts, Except.ok.injEq, Prod.mk.injEq] at hs
      obtain ⟨rfl, rfl, rfl⟩ := hs
      exact ⟨rfl, 0, s, rfl, by simp, rfl, rfl, hinv⟩
  | letS x mu ty e r he hr ih =>
    intro cs cs' code d fuel loc loc' g g' fl s fr frs bs hc hs hfr henc hat hinv hL h32
    obtain ⟨cs1, c1, c2, h1, h2, rfl⟩ := cStmts_cons_inv hc
    obtain ⟨b1, b2, hb1, hb2, rfl⟩ := encodeAll_append _ _ _ henc
    have hmono := body_mono ce r hr cs1 cs' d c2 h2
    cases fuel with
    | zero => simp [Sem.execStmts] at hs
    | succ f =>
      simp only [Sem.execStmts] at hs
      cases hst : Sem.execStmt Sem.vmCfg p f loc g (.letS x mu ty e) with
      | error er => simp [hst] at hs
      | ok res =>
        obtain ⟨fl1, loc1, g1⟩ := res
        have hlen1 : cs1.locals.length = cs.locals.length + 1 → cs.locals.length < L := fun h => by omega
        obtain ⟨cs0, c, k, hce, hadd, _⟩ := cStmt_let_inv h1
        have e0 := cExpr_pure_cs ce e he cs cs0 c hce
        subst e0
        obtain ⟨_, hcs1, _⟩ := localAdd_ok _ _ _ _ _ hadd
        have hroom : cs0.locals.length < L := by
          have : cs1.locals.length = cs0.locals.length + 1 := by rw [hcs1]; simp
          omega
        obtain ⟨rfl, _, n1, s1, hrun1, hip1, hfr1, hcf1, hinv1⟩ :=
          sim_let m ce p L x mu ty e he cs0 cs1 c1 d f loc loc1 g g1 fl1 s fr frs b1 h1 hst hfr hb1 hat.left hinv hroom h32
        simp only [hst] at hs
        have hat2 : CodeAt m s1.curFn s1.ip b2 := by rw [hcf1, hip1]; exact hat.right
        obtain ⟨rfl, n2, s2, hrun2, hip2, hfr2, hcf2, hinv2⟩ :=
          ih cs1 cs' c2 d f loc1 loc' g1 g' fl s1 fr frs b2 h2 hs (by rw [hfr1]; exact hfr) hb2 hat2 hinv1 hL h32
        refine ⟨rfl, n1 + n2, s2, ?_, ?_, by rw [hfr2, hfr1], by rw [hcf2, hcf1], hinv2⟩
        · rw [runN_add m n1 n2 s s1 hrun1]; exact hrun2
        · rw [hip2, hip1]; simp [List.length_append, Nat.add_assoc]
  | stmt st r hst hr ih =>
    intro cs cs' code d fuel loc loc' g g' fl s fr frs bs hc hs hfr henc hat hinv hL h32
    obtain ⟨cs1, c1, c2, h1, h2, rfl⟩ := cStmts_cons_inv hc
    obtain ⟨rfl, _⟩ := stmtF_compF ce st hst cs cs1 d c1 h1
    obtain ⟨b1, b2, hb1, hb2, rfl⟩ := encodeAll_append _ _ _ henc
    cases fuel with
    | zero => simp [Sem.execStmts] at hs
    | succ f =>
      simp only [Sem.execStmts] at hs
      cases hse : Sem.execStmt Sem.vmCfg p f loc g st with
      | error er => simp [hse] at hs
      | ok res =>
        obtain ⟨fl1, loc1, g1⟩ := res
        obtain ⟨rfl, _, n1, s1, hrun1, hip1, hfr1, hcf1, hinv1⟩ :=
          stmtF_sim m ce p L st hst cs1 cs1 c1 d f loc loc1 g g1 fl1 s fr frs b1 h1 hse hfr hb1 hat.left hinv
        simp only [hse] at hs
        have hat2 : CodeAt m s1.curFn s1.ip b2 := by rw [hcf1, hip1]; exact hat.right
        obtain ⟨rfl, n2, s2, hrun2, hip2, hfr2, hcf2, hinv2⟩ :=
          ih cs1 cs' c2 d f loc1 loc' g1 g' fl s1 fr frs b2 h2 hs (by rw [hfr1]; exact hfr) hb2 hat2 hinv1 hL h32
        refine ⟨rfl, n1 + n2, s2, ?_, ?_, by rw [hfr2, hfr1], by rw [hcf2, hcf1], hinv2⟩
        · rw [runN_add m n1 n2 s s1 hrun1]; exact hrun2
        · rw [hip2, hip1]; simp [List.length_append, Nat.add_assoc]

end NanoVerif
