import NanoVerif.Model.Heap
namespace NanoVerif

/-- heap addresses among a list of values -/
def refsOf (vs : List Val) : List Nat := vs.filterMap Val.addr?

@[simp] theorem refsOf_nil : refsOf [] = [] := rfl
@[simp] theorem refsOf_append (a b : List Val) : refsOf (a ++ b) = refsOf a ++ refsOf b := by
  simp [refsOf]
theorem refsOf_cons (v : Val) (vs : List Val) :
    refsOf (v :: vs) = (match v.addr? with | some a => [a] | none => []) ++ refsOf vs := by
  unfold refsOf
  cases h : v.addr? <;> simp [List.filterMap_cons, h]

/-- all references held by live objects -/
def heapRefs (h : Heap) : List Nat := h.cells.flatMap fun p => refsOf p.2.obj.kids

def Heap.keys (h : Heap) : List Nat := h.cells.map (·.1)

/-- Reference-count invariant: every live object's count is at least the number of references
    to it from the roots, from other live objects and from `extra` (values the C code holds in
    locals: popped operands, the release work list, a pending trap). -/
def RcInv (roots : List Val) (h : Heap) (extra : List Val) : Prop :=
  ∀ p ∈ h.cells, (refsOf roots ++ heapRefs h ++ refsOf extra).count p.1 ≤ p.2.rc

/-- no dangling reference: everything referenced is live -/
def Closed (roots : List Val) (h : Heap) (extra : List Val) : Prop :=
  ∀ a ∈ refsOf roots ++ heapRefs h ++ refsOf extra, a ∈ h.keys

theorem Heap.get?_some_mem {h : Heap} {a : Nat} {c : Cell} (hg : h.get? a = some c) : (a, c) ∈ h.cells := by
  unfold Heap.get? at hg
  cases hf : h.cells.find? (·.1 == a) with
  | none => simp [hf] at hg
  | some p =>
    simp [hf] at hg
    have hm := List.mem_of_find?_eq_some hf
    have hp := List.find?_some hf
    simp at hp
    cases p with | mk x y => simp at hp hg; subst hp; subst hg; exact hm

theorem Heap.get?_none_not_key {h : Heap} {a : Nat} (hg : h.get? a = none) : a ∉ h.keys := by
  unfold Heap.get? at hg
  simp only [Option.map_eq_none_iff, List.find?_eq_none] at hg
  intro hk
  unfold Heap.keys at hk
  obtain ⟨p, hp, rfl⟩ := List.mem_map.mp hk
  have := hg p hp
  simp at this

theorem Heap.mem_key_get? {h : Heap} {a : Nat} (hk : a ∈ h.keys) : ∃ c, h.get? a = some c := by
  cases hg : h.get? a with
  | some c => exact ⟨c, rfl⟩
  | none => exact absurd hk (Heap.get?_none_not_key hg)

theorem heapRefs_set_rc (h : Heap) (a : Nat) (c : Cell) (n : Nat) (hg : h.get? a = some c) (hn : h.keys.Nodup) :
    heapRefs (h.set a { c with rc := n }) = heapRefs h := by
  have hm := Heap.get?_some_mem hg
  unfold heapRefs Heap.set
  simp only
  have key : ∀ (l : List (Nat × Cell)), (l.map (·.1)).Nodup → (a, c) ∈ l →
      (l.map fun p => if p.1 == a then (a, { c with rc := n }) else p).flatMap (fun p => refsOf p.2.obj.kids)
        = l.flatMap (fun p => refsOf p.2.obj.kids) := by
    intro l
    induction l with
    | nil => intro _ h; simp at h
    | cons q qs ih =>
      intro hnd hmem
      simp only [List.map_cons, List.nodup_cons] at hnd
      simp only [List.map_cons, List.flatMap_cons]
      rcases List.mem_cons.mp hmem with rfl | hm'
      · simp only [beq_self_eq_true, if_true]
        congr 1
        -- no other entry has key a
        have : ∀ r ∈ qs, (r.1 == a) = false := by
          intro r hr
          have : r.1 ≠ a := fun e => hnd.1 (List.mem_map.mpr ⟨r, hr, e⟩)
          simpa using this
        clear ih hmem
        induction qs with
        | nil => rfl
        | cons r rs ih2 =>
          simp only [List.map_cons, List.flatMap_cons, this r (by simp)]
          simp only [Bool.false_eq_true, if_false]
          rw [ih2 (by simp only [List.map_cons, List.mem_cons, not_or] at hnd; exact ⟨hnd.1.2, (List.nodup_cons.mp hnd.2).2⟩)
            (fun r' hr' => this r' (List.mem_cons_of_mem _ hr'))]
      · have hq : (q.1 == a) = false := by
          have : q.1 ≠ a := fun e => hnd.1 (List.mem_map.mpr ⟨(a, c), hm', by simp [e]⟩)
          simpa using this
        simp only [hq, Bool.false_eq_true, if_false]
        rw [ih hnd.2 hm']
  exact key h.cells hn hm

theorem keys_set (h : Heap) (a : Nat) (c : Cell) : (h.set a c).keys = h.keys := by
  unfold Heap.keys Heap.set
  simp only [List.map_map]
  apply List.map_congr_left
  intro p _
  simp only [Function.comp]
  by_cases hp : p.1 = a
  · simp [hp]
  · simp [hp]

theorem keys_erase_sublist (h : Heap) (a : Nat) : (h.erase a).keys.Sublist h.keys := by
  unfold Heap.keys Heap.erase
  exact List.Sublist.map _ List.filter_sublist

theorem count_heapRefs_erase (h : Heap) (a : Nat) (c : Cell) (x : Nat)
    (hn : h.keys.Nodup) (hm : (a, c) ∈ h.cells) :
    (heapRefs h).count x = (refsOf c.obj.kids).count x + (heapRefs (h.erase a)).count x := by
  unfold heapRefs Heap.erase Heap.keys at *
  simp only
  generalize h.cells = l at *
  induction l with
  | nil => simp at hm
  | cons p ps ih =>
    simp only [List.map_cons, List.nodup_cons] at hn
    simp only [List.flatMap_cons, List.count_append, List.filter_cons]
    rcases List.mem_cons.mp hm with rfl | hm'
    · have hnot : ∀ q ∈ ps, q.1 ≠ a := by
        intro q hq hqa; exact hn.1 (List.mem_map.mpr ⟨q, hq, hqa⟩)
      have hf : List.filter (fun p => p.1 != a) ps = ps := by
        apply List.filter_eq_self.mpr; intro q hq; simpa using hnot q hq
      simp [hf]
    · have hpa : p.1 ≠ a := by
        intro hpa; apply hn.1; exact List.mem_map.mpr ⟨(a, c), hm', by simp [hpa]⟩
      have := ih hn.2 hm'
      simp [hpa, List.flatMap_cons, List.count_append, this]
      omega

theorem mem_cells_unique {h : Heap} (hn : h.keys.Nodup) {x y : Nat × Cell} (hx : x ∈ h.cells) (hy : y ∈ h.cells)
    (hxy : x.1 = y.1) : x = y := by
  unfold Heap.keys at hn
  generalize h.cells = l at *
  induction l with
  | nil => simp at hx
  | cons z zs ih =>
    simp only [List.map_cons, List.nodup_cons] at hn
    rcases List.mem_cons.mp hx with rfl | hx' <;> rcases List.mem_cons.mp hy with rfl | hy'
    · rfl
    · exact absurd (List.mem_map.mpr ⟨y, hy', hxy.symm⟩) hn.1
    · exact absurd (List.mem_map.mpr ⟨x, hx', hxy⟩) hn.1
    · exact ih hn.2 hx' hy'

/-- The heart of `vm_release`: recursive release over a work list preserves the count invariant,
    keeps the heap free of dangling references, never touches a dead address and never frees an
    object that is still referenced. -/
theorem release_inv (roots : List Val) (h : Heap) (ws : List Val) :
    ∀ extra, h.keys.Nodup → RcInv roots h (ws ++ extra) → Closed roots h (ws ++ extra) →
      RcInv roots (h.release ws) extra ∧ Closed roots (h.release ws) extra ∧ (h.release ws).keys.Nodup
        ∧ (h.release ws).dangling = h.dangling ∧ (h.release ws).next = h.next := by
  fun_induction Heap.release h ws with
  | case1 h => intro extra hn hi hc; exact ⟨by simpa using hi, by simpa using hc, hn, rfl, rfl⟩
  | case2 h v ws hv ih =>
    intro extra hn hi hc
    have e : refsOf (v :: ws ++ extra) = refsOf (ws ++ extra) := by
      rw [List.cons_append, refsOf_cons, hv]; rfl
    apply ih extra hn
    · intro p hp; have := hi p hp; rw [e] at this; exact this
    · intro a ha; apply hc a; rw [e]; exact ha
  | case3 h v ws a hv hg ih =>
    -- the address is not live: impossible under `Closed`
    intro extra hn hi hc
    exfalso
    have : a ∈ h.keys := by
      apply hc a
      rw [List.cons_append, refsOf_cons, hv]
      simp
    exact Heap.get?_none_not_key hg this
  | case4 h v ws a hv c hg hrc ih =>
    intro extra hn hi hc
    have hm := Heap.get?_some_mem hg
    have hn' : (h.erase a).keys.Nodup := (keys_erase_sublist h a).nodup hn
    have e : refsOf (v :: ws ++ extra) = a :: refsOf (ws ++ extra) := by
      rw [List.cons_append, refsOf_cons, hv]; rfl
    -- a is referenced at most once overall (rc ≤ 1) and that reference is v
    have ha := hi (a, c) hm
    rw [e] at ha
    simp only [List.count_append, List.count_cons_self] at ha
    have hmem_erase : ∀ p, p ∈ (h.erase a).cells → p ∈ h.cells ∧ p.1 ≠ a := by
      intro p hp
      unfold Heap.erase at hp
      have := List.mem_filter.mp hp
      exact ⟨this.1, by simpa using this.2⟩
    have := ih extra hn'
      (by
        intro p hp
        obtain ⟨hp', hpa⟩ := hmem_erase p hp
        have := hi p hp'
        have hsplit := count_heapRefs_erase h a c p.1 hn hm
        rw [e] at this
        simp only [refsOf_append, List.count_append, List.count_cons, List.append_assoc] at this ⊢
        have h0 : (if a == p.1 then 1 else 0) = 0 := by
          have : ¬ (a = p.1) := fun e => hpa e.symm
          simp [this]
        omega)
      (by
        intro x hx
        -- x is referenced in the new configuration; it was referenced before, hence live; and x ≠ a
        have hxa : x ≠ a := by
          intro hxa; subst hxa
          have hsplit := count_heapRefs_erase h x c x hn hm
          have hcount : 0 < (refsOf roots ++ heapRefs (h.erase x) ++ refsOf (c.obj.kids ++ ws ++ extra)).count x :=
            List.count_pos_iff.mpr hx
          simp only [refsOf_append, List.count_append, List.append_assoc] at hcount ha
          omega
        have hxold : x ∈ refsOf roots ++ heapRefs h ++ refsOf (v :: ws ++ extra) := by
          have hsplit := count_heapRefs_erase h a c x hn hm
          have hcount : 0 < (refsOf roots ++ heapRefs (h.erase a) ++ refsOf (c.obj.kids ++ ws ++ extra)).count x :=
            List.count_pos_iff.mpr hx
          apply List.count_pos_iff.mp
          rw [e]
          simp only [refsOf_append, List.count_append, List.count_cons, List.append_assoc] at hcount ⊢
          omega
        have hk := hc x hxold
        unfold Heap.keys Heap.erase at *
        obtain ⟨p, hp, rfl⟩ := List.mem_map.mp hk
        exact List.mem_map.mpr ⟨p, List.mem_filter.mpr ⟨hp, by simpa using hxa⟩, rfl⟩)
    obtain ⟨r1, r2, r3, r4, r5⟩ := this
    exact ⟨r1, r2, r3, by rw [r4]; rfl, by rw [r5]; rfl⟩
  | case5 h v ws a hv c hg hrc ih =>
    intro extra hn hi hc
    have hm := Heap.get?_some_mem hg
    have e : refsOf (v :: ws ++ extra) = a :: refsOf (ws ++ extra) := by
      rw [List.cons_append, refsOf_cons, hv]; rfl
    have hkeys := keys_set h a { c with rc := c.rc - 1 }
    have hrefs := heapRefs_set_rc h a c (c.rc - 1) hg hn
    have := ih extra (by rw [hkeys]; exact hn)
      (by
        intro p hp
        rw [hrefs]
        simp only [Heap.set, List.mem_map] at hp
        obtain ⟨q, hq, rfl⟩ := hp
        have := hi q hq
        rw [e] at this
        simp only [List.count_append, List.count_cons] at this ⊢
        by_cases hqa : q.1 == a
        · have hqa' : q.1 = a := by simpa using hqa
          have hqc : q = (a, c) := mem_cells_unique hn hq hm (by simpa using hqa')
          subst hqc
          simp at this ⊢
          omega
        · have hne : ¬ (a = q.1) := by
            intro e; apply hqa; simp [e]
          simp only [hqa, Bool.false_eq_true, if_false]
          have h0 : (if a == q.1 then 1 else 0) = 0 := by simp [hne]
          omega)
      (by
        intro x hx
        rw [hrefs] at hx
        rw [hkeys]
        apply hc x
        rw [e]
        simp only [List.mem_append, List.mem_cons] at hx ⊢
        rcases hx with (h1 | h1) | h1
        · exact Or.inl (Or.inl h1)
        · exact Or.inl (Or.inr h1)
        · exact Or.inr (Or.inr h1))
    obtain ⟨r1, r2, r3, r4, r5⟩ := this
    exact ⟨r1, r2, r3, by rw [r4]; rfl, by rw [r5]; rfl⟩

/-- release never adds an address -/
theorem release_keys_subset (h : Heap) (ws : List Val) : ∀ k ∈ (h.release ws).keys, k ∈ h.keys := by
  fun_induction Heap.release h ws with
  | case1 h => intro k hk; exact hk
  | case2 h v ws hv ih => exact ih
  | case3 h v ws a hv hg ih => exact ih
  | case4 h v ws a hv c hg hrc ih =>
    intro k hk
    exact (keys_erase_sublist h a).subset (ih k hk)
  | case5 h v ws a hv c hg hrc ih =>
    intro k hk
    have := ih k hk
    rwa [keys_set] at this

/-- the invariant only depends on how often each address is referenced -/
theorem RcInv_of_count (roots roots' : List Val) (h : Heap) (extra extra' : List Val)
    (hc : ∀ x, (refsOf roots' ++ refsOf extra').count x ≤ (refsOf roots ++ refsOf extra).count x)
    (hi : RcInv roots h extra) : RcInv roots' h extra' := by
  intro p hp
  have := hi p hp
  have := hc p.1
  simp only [List.count_append] at *
  omega

theorem Closed_of_mem (roots roots' : List Val) (h : Heap) (extra extra' : List Val)
    (hm : ∀ x, x ∈ refsOf roots' ++ refsOf extra' → x ∈ refsOf roots ++ refsOf extra)
    (hc : Closed roots h extra) : Closed roots' h extra' := by
  intro a ha
  apply hc a
  simp only [List.mem_append] at ha hm ⊢
  rcases ha with (h1 | h1) | h1
  · rcases hm a (Or.inl h1) with h2 | h2
    · exact Or.inl (Or.inl h2)
    · exact Or.inr h2
  · exact Or.inl (Or.inr h1)
  · rcases hm a (Or.inr h1) with h2 | h2
    · exact Or.inl (Or.inl h2)
    · exact Or.inr h2

/-- `vm_retain` of a live value: the holder gets one more counted reference -/
theorem retain_inv (roots : List Val) (h : Heap) (v : Val) (extra : List Val)
    (hn : h.keys.Nodup) (hi : RcInv roots h extra) (hc : Closed roots h extra)
    (hv : ∀ a, v.addr? = some a → a ∈ h.keys) :
    RcInv roots (h.retain v) (v :: extra) ∧ Closed roots (h.retain v) (v :: extra) ∧ (h.retain v).keys.Nodup
      ∧ (h.retain v).dangling = h.dangling ∧ (h.retain v).next = h.next := by
  unfold Heap.retain
  cases hva : v.addr? with
  | none =>
    simp only
    have e : refsOf (v :: extra) = refsOf extra := by rw [refsOf_cons, hva]; rfl
    refine ⟨?_, ?_, hn, by simp, by simp⟩
    · intro p hp; rw [e]; exact hi p hp
    · intro a ha; rw [e] at ha; exact hc a ha
  | some a =>
    simp only
    obtain ⟨c, hg⟩ := Heap.mem_key_get? (hv a hva)
    rw [hg]
    simp only
    have hm := Heap.get?_some_mem hg
    have e : refsOf (v :: extra) = a :: refsOf extra := by rw [refsOf_cons, hva]; rfl
    have hkeys := keys_set h a { c with rc := c.rc + 1 }
    have hrefs := heapRefs_set_rc h a c (c.rc + 1) hg hn
    refine ⟨?_, ?_, by rw [hkeys]; exact hn, by simp [Heap.set], by simp [Heap.set]⟩
    · intro p hp
      rw [hrefs, e]
      simp only [Heap.set, List.mem_map] at hp
      obtain ⟨q, hq, rfl⟩ := hp
      have := hi q hq
      simp only [List.count_append, List.count_cons] at this ⊢
      by_cases hqa : q.1 == a
      · have hqa' : q.1 = a := by simpa using hqa
        have hqc : q = (a, c) := mem_cells_unique hn hq hm (by simpa using hqa')
        subst hqc
        simp at this ⊢
        omega
      · have hne : ¬ (a = q.1) := by intro e; apply hqa; simp [e]
        simp only [hqa, Bool.false_eq_true, if_false]
        have h0 : (if a == q.1 then 1 else 0) = 0 := by simp [hne]
        omega
    · intro x hx
      rw [hrefs, e] at hx
      rw [hkeys]
      simp only [List.mem_append, List.mem_cons] at hx
      rcases hx with (h1 | h1) | h1 | h1
      · exact hc x (by simp [h1])
      · exact hc x (by simp [h1])
      · subst h1; exact hv x hva
      · exact hc x (by simp [h1])

/-- allocation (`vm_array_new`, `vm_struct_new`, …, rc = 1): the children move from the holder
    into the new object, the holder gets the only reference to it -/
theorem alloc_inv (roots : List Val) (h : Heap) (o : Obj) (extra : List Val) (mk : Nat → Val)
    (hmk : ∀ a, (mk a).addr? = some a)
    (hn : h.keys.Nodup) (hfresh : ∀ k ∈ h.keys, k < h.next)
    (hi : RcInv roots h (o.kids ++ extra)) (hc : Closed roots h (o.kids ++ extra)) :
    RcInv roots (h.alloc o).1 (mk (h.alloc o).2 :: extra) ∧ Closed roots (h.alloc o).1 (mk (h.alloc o).2 :: extra)
      ∧ (h.alloc o).1.keys.Nodup ∧ (∀ k ∈ (h.alloc o).1.keys, k < (h.alloc o).1.next)
      ∧ (h.alloc o).1.dangling = h.dangling := by
  unfold Heap.alloc
  simp only
  have hnotkey : h.next ∉ h.keys := fun hk => Nat.lt_irrefl _ (hfresh _ hk)
  have hrefs : heapRefs { h with cells := h.cells ++ [(h.next, { rc := 1, obj := o })], next := h.next + 1 }
      = heapRefs h ++ refsOf o.kids := by simp [heapRefs]
  have hkeys : Heap.keys { h with cells := h.cells ++ [(h.next, { rc := 1, obj := o })], next := h.next + 1 }
      = h.keys ++ [h.next] := by simp [Heap.keys]
  have e : refsOf (mk h.next :: extra) = h.next :: refsOf extra := by rw [refsOf_cons, hmk]; rfl
  -- h.next is referenced nowhere in the old configuration
  have hcount0 : (refsOf roots ++ heapRefs h ++ refsOf (o.kids ++ extra)).count h.next = 0 := by
    apply List.count_eq_zero.mpr
    intro hm; exact hnotkey (hc _ hm)
  refine ⟨?_, ?_, ?_, ?_, by simp⟩
  · intro p hp
    rw [hrefs, e]
    simp only [List.mem_append, List.mem_singleton] at hp
    rcases hp with hp | rfl
    · have := hi p hp
      have hpk : p.1 ≠ h.next := by
        intro e'; apply hnotkey; rw [← e']; exact List.mem_map.mpr ⟨p, hp, rfl⟩
      simp only [refsOf_append, List.count_append, List.count_cons] at this ⊢
      have h0 : (if h.next == p.1 then 1 else 0) = 0 := by
        have : ¬ (h.next = p.1) := fun e' => hpk e'.symm
        simp [this]
      omega
    · simp only [refsOf_append, List.count_append, List.count_cons_self] at hcount0 ⊢
      omega
  · intro x hx
    rw [hrefs, e] at hx
    rw [hkeys]
    simp only [List.mem_append, List.mem_cons, List.mem_singleton] at hx ⊢
    rcases hx with (h1 | h1 | h1) | h1 | h1
    · exact Or.inl (hc x (by simp [h1]))
    · exact Or.inl (hc x (by simp [h1]))
    · exact Or.inl (hc x (by simp [h1]))
    · exact Or.inr (Or.inl h1)
    · exact Or.inl (hc x (by simp [h1]))
  · rw [hkeys]
    exact List.nodup_append.mpr ⟨hn, by simp, by
      intro a ha b hb; simp only [List.mem_singleton] at hb; subst hb
      intro e'; exact hnotkey (e' ▸ ha)⟩
  · intro k hk
    rw [hkeys] at hk
    simp only [List.mem_append, List.mem_singleton] at hk
    rcases hk with hk | rfl
    · have := hfresh k hk; simp; omega
    · simp

end NanoVerif
