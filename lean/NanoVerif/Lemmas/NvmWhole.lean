/-
Whole-file round trip of the .nvm container: `nvm_deserialize (nvm_serialize m)` rebuilds the
module (header, directory, every section), for every well-formed module.
-/
import NanoVerif.Lemmas.NvmFile
namespace NanoVerif

/-- the sections `nvm_serialize` writes, as data -/
def secsOf (m : Module) : List Sec :=
  (if m.strings.length > 0 then [Sec.strings m.strings] else [])
  ++ (if m.code.length > 0 then [Sec.code m.code] else [])
  ++ (if m.functions.length > 0 then [Sec.functions m.functions] else [])
  ++ (if m.debug.length > 0 then [Sec.debug m.debug] else [])
  ++ (if m.imports.length > 0 then [Sec.imports m.imports] else [])

theorem secPairs_secsOf (m : Module) : secPairs (secsOf m) = sectionsOf m := by
  unfold secsOf sectionsOf secPairs
  simp only [List.map_append]
  congr 1
  · congr 1
    · congr 1
      · congr 1
        · split <;> rfl
        · split <;> rfl
      · split <;> rfl
    · split <;> rfl
  · split <;> rfl

theorem secsOf_length_le (m : Module) : (secsOf m).length ≤ 5 := by
  unfold secsOf
  simp only [List.length_append]
  repeat' split
  all_goals simp

/-- what the loader rebuilds from the sections of `m` -/
def reload (m : Module) : Module :=
  (secsOf m).foldl Sec.apply { flags := m.flags, entryPoint := m.entryPoint }

/-- a module `nvm_serialize` can write and `nvm_deserialize` can read back: fields fit their widths, the file
    is below 4 GiB -/
structure Module.wf (m : Module) : Prop where
  flags : m.flags < 4294967296
  entry : m.entryPoint < 4294967296
  secs : ∀ s ∈ secsOf m, s.wf
  size : (serialize m).length < 4294967296

theorem field_at (pre x post : Bytes) (k : Nat) (hp : pre.length = k) (hx : x.length = 4) :
    ((pre ++ x ++ post).drop k).take 4 = x := by
  subst hp
  rw [List.append_assoc, List.drop_left, ← hx, List.take_left]

theorem header_fields (a0 a1 a2 a3 a4 a5 a6 a7 rest : Bytes)
    (h0 : a0.length = 4) (h1 : a1.length = 4) (h2 : a2.length = 4) (h3 : a3.length = 4) (h4 : a4.length = 4)
    (h5 : a5.length = 4) (h6 : a6.length = 4) (h7 : a7.length = 4) :
    (a0 ++ a1 ++ a2 ++ a3 ++ a4 ++ a5 ++ a6 ++ a7 ++ rest).take 4 = a0 ∧
    ((a0 ++ a1 ++ a2 ++ a3 ++ a4 ++ a5 ++ a6 ++ a7 ++ rest).drop 4).take 4 = a1 ∧
    ((a0 ++ a1 ++ a2 ++ a3 ++ a4 ++ a5 ++ a6 ++ a7 ++ rest).drop 8).take 4 = a2 ∧
    ((a0 ++ a1 ++ a2 ++ a3 ++ a4 ++ a5 ++ a6 ++ a7 ++ rest).drop 12).take 4 = a3 ∧
    ((a0 ++ a1 ++ a2 ++ a3 ++ a4 ++ a5 ++ a6 ++ a7 ++ rest).drop 16).take 4 = a4 ∧
    ((a0 ++ a1 ++ a2 ++ a3 ++ a4 ++ a5 ++ a6 ++ a7 ++ rest).drop 28).take 4 = a7 ∧
    (a0 ++ a1 ++ a2 ++ a3 ++ a4 ++ a5 ++ a6 ++ a7 ++ rest).drop 32 = rest := by
  refine ⟨?_, ?_, ?_, ?_, ?_, ?_, ?_⟩
  · have := field_at [] a0 (a1 ++ a2 ++ a3 ++ a4 ++ a5 ++ a6 ++ a7 ++ rest) 0 rfl h0
    simpa [List.append_assoc] using this
  · have := field_at a0 a1 (a2 ++ a3 ++ a4 ++ a5 ++ a6 ++ a7 ++ rest) 4 h0 h1
    simpa [List.append_assoc] using this
  · have := field_at (a0 ++ a1) a2 (a3 ++ a4 ++ a5 ++ a6 ++ a7 ++ rest) 8 (by simp [h0, h1]) h2
    simpa [List.append_assoc] using this
  · have := field_at (a0 ++ a1 ++ a2) a3 (a4 ++ a5 ++ a6 ++ a7 ++ rest) 12 (by simp [h0, h1, h2]) h3
    simpa [List.append_assoc] using this
  · have := field_at (a0 ++ a1 ++ a2 ++ a3) a4 (a5 ++ a6 ++ a7 ++ rest) 16 (by simp [h0, h1, h2, h3]) h4
    simpa [List.append_assoc] using this
  · have := field_at (a0 ++ a1 ++ a2 ++ a3 ++ a4 ++ a5 ++ a6) a7 rest 28 (by simp [h0, h1, h2, h3, h4, h5, h6]) h7
    simpa [List.append_assoc] using this
  · have : (a0 ++ a1 ++ a2 ++ a3 ++ a4 ++ a5 ++ a6 ++ a7).length = 32 := by simp [h0, h1, h2, h3, h4, h5, h6, h7]
    rw [← this, List.drop_left]

/-- **whole-file round trip**: for every well-formed module, the loader accepts what the serialiser wrote - magic,
    version, section count, CRC over the body, directory with running offsets, every section, "sections end at
    the end of the file" - and rebuilds the module from its sections -/
theorem deserialize_serialize (m : Module) (hw : m.wf) : deserialize (serialize m) = .ok (reload m) := by
  have hsp := secPairs_secsOf m
  have hlen5 := secsOf_length_le m
  have hn : (sectionsOf m).length = (secsOf m).length := by rw [← hsp]; simp [secPairs]
  -- the file, piece by piece
  have hbody : bodyOf (sectionsOf m) =
      dirEntries (Gen.headerSize + Gen.sectionEntrySize * (secsOf m).length) (secPairs (secsOf m)) ++ bodyBytes (secsOf m) := by
    unfold bodyOf
    rw [← hsp, secPairs_flat]
    simp [secPairs]
  obtain ⟨f0, f1, f2, f3, f4, f7, f8⟩ := header_fields (Gen.nvmMagic.map UInt8.ofNat) (leBytes 4 Gen.nvmFormatVersion) (leBytes 4 m.flags)
    (leBytes 4 m.entryPoint) (leBytes 4 (sectionsOf m).length) (leBytes 4 (strPoolInfo (sectionsOf m)).1)
    (leBytes 4 (strPoolInfo (sectionsOf m)).2) (leBytes 4 (crc32 (bodyOf (sectionsOf m))).toNat) (bodyOf (sectionsOf m))
    (by decide) (by simp) (by simp) (by simp) (by simp) (by simp) (by simp) (by simp)
  have hdata : serialize m = Gen.nvmMagic.map UInt8.ofNat ++ leBytes 4 Gen.nvmFormatVersion ++ leBytes 4 m.flags ++ leBytes 4 m.entryPoint
      ++ leBytes 4 (sectionsOf m).length ++ leBytes 4 (strPoolInfo (sectionsOf m)).1 ++ leBytes 4 (strPoolInfo (sectionsOf m)).2
      ++ leBytes 4 (crc32 (bodyOf (sectionsOf m))).toNat ++ bodyOf (sectionsOf m) := by
    unfold serialize headerOf; rfl
  have hH : (headerOf m (sectionsOf m) (crc32 (bodyOf (sectionsOf m))).toNat).length = Gen.headerSize := by
    unfold headerOf; simp; decide
  have hsize : (serialize m).length = Gen.headerSize + (bodyOf (sectionsOf m)).length := by
    unfold serialize; simp only [List.length_append, hH]
  have hbl : (bodyOf (sectionsOf m)).length = 12 * (secsOf m).length + (bodyBytes (secsOf m)).length := by
    rw [hbody, List.length_append, dirEntries_length]; simp [secPairs]
  have hcrc_lt : (crc32 (bodyOf (sectionsOf m))).toNat < 256 ^ 4 := (crc32 (bodyOf (sectionsOf m))).isLt
  unfold deserialize
  simp only
  rw [if_neg (by rw [hsize]; omega)]
  have hvalid : headerValid (serialize m) = true := by
    unfold headerValid
    rw [hdata, f0, f1, f4, leVal_leBytes_of_lt _ _ (by decide), leVal_leBytes_of_lt _ _ (by rw [hn]; omega)]
    simp only [beq_self_eq_true, Bool.true_and, decide_eq_true_eq]
    rw [hn]; unfold Gen.maxSections; omega
  rw [hvalid]
  simp only [Bool.not_true, Bool.false_eq_true, if_false]
  have e2 : leVal (((serialize m).drop 8).take 4) = m.flags := by rw [hdata, f2, leVal_leBytes_of_lt _ _ hw.flags]
  have e3 : leVal (((serialize m).drop 12).take 4) = m.entryPoint := by rw [hdata, f3, leVal_leBytes_of_lt _ _ hw.entry]
  have e4 : leVal (((serialize m).drop 16).take 4) = (secsOf m).length := by
    rw [hdata, f4, leVal_leBytes_of_lt _ _ (by rw [hn]; omega), hn]
  have e7 : leVal (((serialize m).drop Gen.checksumOffset).take 4) = (crc32 (bodyOf (sectionsOf m))).toNat := by
    show leVal (((serialize m).drop 28).take 4) = _
    rw [hdata, f7, leVal_leBytes_of_lt _ _ hcrc_lt]
  have e8 : (serialize m).drop Gen.headerSize = bodyOf (sectionsOf m) := by
    show (serialize m).drop 32 = _
    rw [hdata, f8]
  rw [e2, e3, e4, e7, e8]
  simp only [bne_self_eq_false, Bool.false_eq_true, if_false]
  rw [if_neg (by rw [hsize, hbl]; unfold Gen.headerSize Gen.sectionEntrySize; omega)]
  have hfile := loadSections_file (headerOf m (sectionsOf m) (crc32 (bodyOf (sectionsOf m))).toNat) hH (secsOf m) hw.secs (serialize m)
    (by unfold serialize; simp only [List.append_assoc]; congr 1) hw.size (secsOf m) [] { flags := m.flags, entryPoint := m.entryPoint } rfl
  simp only [List.length_nil, bodyBytes, List.flatMap_nil, Nat.add_zero] at hfile
  have hmul : (secsOf m).length * Gen.sectionEntrySize = Gen.sectionEntrySize * (secsOf m).length := Nat.mul_comm _ _
  rw [hmul, hfile]
  simp only
  rw [if_neg (by
    rw [hsize, hbl]
    simp [bodyBytes, Gen.headerSize, Gen.sectionEntrySize]
    omega)]
  rfl

/-- when the string pool has no duplicates and the import entries are in canonical form, the module comes back
    exactly -/
theorem reload_eq (m : Module) (hnd : m.strings.Nodup) (hci : m.imports.map canonImport = m.imports) : reload m = m := by
  have hstr : m.strings.foldl (fun a s => (addString a s).1) [] = m.strings := by
    have key : ∀ (ss acc : List Bytes), (acc ++ ss).Nodup → ss.foldl (fun a s => (addString a s).1) acc = acc ++ ss := by
      intro ss
      induction ss with
      | nil => intro acc _; simp
      | cons x r ih =>
        intro acc h
        have hx : x ∉ acc := by
          intro hm
          have := (List.nodup_append.mp h).2.2 x hm x (by simp)
          exact this rfl
        have : (addString acc x).1 = acc ++ [x] := by
          unfold addString
          have : acc.findIdx? (· == x) = none := by
            rw [List.findIdx?_eq_none_iff]
            intro y hy
            have : y ≠ x := fun e => hx (e ▸ hy)
            simpa using this
          rw [this]
        simp only [List.foldl_cons, this]
        rw [ih (acc ++ [x]) (by simpa [List.append_assoc] using h)]
        simp
    simpa using key m.strings [] (by simpa using hnd)
  unfold reload secsOf
  cases m with
  | mk flags entry strings functions code debug imports =>
    simp only at hstr hci ⊢
    simp only [List.foldl_append]
    have a1 : ∀ m0 : Module, (if strings.length > 0 then [Sec.strings strings] else []).foldl Sec.apply m0
        = { m0 with strings := strings.foldl (fun a s => (addString a s).1) m0.strings } := by
      intro m0
      split
      · rfl
      · have : strings = [] := by cases strings <;> simp_all
        subst this; rfl
    have a2 : ∀ m0 : Module, (if code.length > 0 then [Sec.code code] else []).foldl Sec.apply m0 = { m0 with code := m0.code ++ code } := by
      intro m0
      split
      · rfl
      · have : code = [] := by cases code <;> simp_all
        subst this; simp
    have a3 : ∀ m0 : Module, (if functions.length > 0 then [Sec.functions functions] else []).foldl Sec.apply m0
        = { m0 with functions := m0.functions ++ functions } := by
      intro m0
      split
      · rfl
      · have : functions = [] := by cases functions <;> simp_all
        subst this; simp
    have a4 : ∀ m0 : Module, (if debug.length > 0 then [Sec.debug debug] else []).foldl Sec.apply m0 = { m0 with debug := m0.debug ++ debug } := by
      intro m0
      split
      · rfl
      · have : debug = [] := by cases debug <;> simp_all
        subst this; simp
    have a5 : ∀ m0 : Module, (if imports.length > 0 then [Sec.imports imports] else []).foldl Sec.apply m0
        = { m0 with imports := m0.imports ++ imports.map canonImport } := by
      intro m0
      split
      · rfl
      · have : imports = [] := by cases imports <;> simp_all
        subst this; simp
    rw [a1, a2, a3, a4, a5]
    simp [hstr, hci]

end NanoVerif
