/-
Styled expression trees — every operator node says whether it is written in prefix form `(op a b)` or in
infix form `a op b` — their spelling as token lists, and the parser lemmas behind C07: every valid
spelling of a tree parses to the same `Expr`.
-/
import NanoVerif.Model.Parser

namespace NanoVerif
open Gen

/-- expression trees with the token texts at the leaves and a style flag on operator nodes
    (`pre = true`: written `(op …)`, `false`: written infix / unary without parentheses) -/
inductive ST
  | num (b : Bytes)
  | var (b : Bytes)
  | tru
  | fls
  | un (pre : Bool) (op : TT) (e : ST)
  | bin (pre : Bool) (op : TT) (a b : ST)
  | call (f : Bytes) (args : List ST)
  | field (e : ST) (name : Bytes)
deriving Repr, Inhabited

mutual
/-- the tree a spelling denotes (style flags forgotten) -/
def ST.toExpr : ST → Expr
  | .num b => .num (atoll b)
  | .var b => .ident (bytesToString b)
  | .tru => .bool true
  | .fls => .bool false
  | .un _ op e => .prefixOp op [e.toExpr]
  | .bin _ op a b => .prefixOp op [a.toExpr, b.toExpr]
  | .call f args => .call (bytesToString f) (ST.toExprs args)
  | .field e n => .field e.toExpr (bytesToString n)
def ST.toExprs : List ST → List Expr
  | [] => []
  | a :: r => a.toExpr :: ST.toExprs r
end

def tk (t : TT) (v : Bytes := []) : Tok := ⟨t, v⟩

mutual
/-- spelling where the parser expects a primary with its postfix chain (right operand, unary operand,
    object of a field access) -/
def printO : ST → List Tok
  | .num b => [tk .T_NUMBER b]
  | .var b => [tk .T_IDENTIFIER b]
  | .tru => [tk .T_TRUE]
  | .fls => [tk .T_FALSE]
  | .un true op e => [tk .T_LPAREN, tk op] ++ printL e ++ [tk .T_RPAREN]
  | .un false op e => tk op :: printO e
  | .bin true op a b => [tk .T_LPAREN, tk op] ++ printL a ++ printL b ++ [tk .T_RPAREN]
  | .bin false op a b => [tk .T_LPAREN] ++ printL a ++ [tk op] ++ printO b ++ [tk .T_RPAREN]
  | .call f args => [tk .T_LPAREN, tk .T_IDENTIFIER f] ++ printLs args ++ [tk .T_RPAREN]
  | .field e n => printO e ++ [tk .T_DOT, tk .T_IDENTIFIER n]
/-- spelling where the parser expects a whole expression (statement position, argument, operand of a
    prefix form): an infix node continues the chain without parentheses -/
def printL : ST → List Tok
  | .bin false op a b => printL a ++ [tk op] ++ printO b
  | .num b => [tk .T_NUMBER b]
  | .var b => [tk .T_IDENTIFIER b]
  | .tru => [tk .T_TRUE]
  | .fls => [tk .T_FALSE]
  | .un true op e => [tk .T_LPAREN, tk op] ++ printL e ++ [tk .T_RPAREN]
  | .un false op e => tk op :: printO e
  | .bin true op a b => [tk .T_LPAREN, tk op] ++ printL a ++ printL b ++ [tk .T_RPAREN]
  | .call f args => [tk .T_LPAREN, tk .T_IDENTIFIER f] ++ printLs args ++ [tk .T_RPAREN]
  | .field e n => printO e ++ [tk .T_DOT, tk .T_IDENTIFIER n]
def printLs : List ST → List Tok
  | [] => []
  | a :: r => printL a ++ printLs r
end

/-- first token of a spelling is an operator token (unary written without parentheses, possibly at the
    head of an infix chain) -/
def startsOp : ST → Bool
  | .un false _ _ => true
  | .bin false _ a _ => startsOp a
  | .field e _ => startsOp e
  | _ => false

def lowerId (b : Bytes) : Prop := isUpperFirst b = false

def isUnOp (t : TT) : Prop := t = .T_MINUS ∨ t = .T_NOT
def isBinOp (t : TT) : Prop := infixOps.contains t = true

mutual
/-- spellings the theorem covers (`validO`: where `printO` is used, `validL`: where `printL` is used):
    * identifiers do not start with an upper-case letter (F-C07-2: the parser reads `X <` and `X {` as
      type syntax);
    * directly after an opening parenthesis of an infix group, and in second or later argument position,
      an expression does not start with an operator token (`( - …` is the prefix form and `(f a -b)` is a
      subtraction by the language's own rules);
    * the object of a field access is not a bare unary operation (`-y.f` is `-(y.f)`). -/
def ST.validO : ST → Prop
  | .num _ => True
  | .var b => lowerId b
  | .tru => True
  | .fls => True
  | .un true op e => isUnOp op ∧ e.validL
  | .un false op e => isUnOp op ∧ e.validO
  | .bin true op a b => isBinOp op ∧ a.validL ∧ b.validL ∧ startsOp b = false
  | .bin false op a b => isBinOp op ∧ a.validL ∧ b.validO ∧ startsOp a = false
  | .call f args => lowerId f ∧ ST.validArgs args
  | .field e n => lowerId n ∧ e.validO ∧ (match e with | .un false _ _ => False | _ => True)
def ST.validL : ST → Prop
  | .bin false op a b => isBinOp op ∧ a.validL ∧ b.validO
  | .num _ => True
  | .var b => lowerId b
  | .tru => True
  | .fls => True
  | .un true op e => isUnOp op ∧ e.validL
  | .un false op e => isUnOp op ∧ e.validO
  | .bin true op a b => isBinOp op ∧ a.validL ∧ b.validL ∧ startsOp b = false
  | .call f args => lowerId f ∧ ST.validArgs args
  | .field e n => lowerId n ∧ e.validO ∧ (match e with | .un false _ _ => False | _ => True)
def ST.validArgs : List ST → Prop
  | [] => True
  | a :: r => a.validL ∧ startsOp a = false ∧ ST.validArgs r
end

mutual
/-- nesting of `parse_expression` calls below a `parse_primary` at which `printO e` starts -/
def dO : ST → Nat
  | .num _ => 0
  | .var _ => 0
  | .tru => 0
  | .fls => 0
  | .un true _ e => dL e
  | .un false _ e => dO e
  | .bin true _ a b => max (dL a) (dL b)
  | .bin false _ a b => max (dL a) (1 + dO b)
  | .call _ args => max 1 (dLs args)
  | .field e _ => dO e
/-- nesting of `parse_expression` calls (this one included) for `printL e` -/
def dL : ST → Nat
  | .bin false _ a b => max (dL a) (1 + dO b)
  | .num _ => 1
  | .var _ => 1
  | .tru => 1
  | .fls => 1
  | .un true _ e => 1 + dL e
  | .un false _ e => 1 + dO e
  | .bin true _ a b => 1 + max (dL a) (dL b)
  | .call _ args => 1 + max 1 (dLs args)
  | .field e _ => 1 + dO e
def dLs : List ST → Nat
  | [] => 0
  | a :: r => max (dL a) (dLs r)
end

/-- "for all sufficiently large fuel" -/
def Ev {α : Type} (g : Nat → α) (v : α) : Prop := ∃ N, ∀ f, N ≤ f → g f = v

theorem Ev.of_succ {α : Type} {g : Nat → α} {v : α} (h : ∃ N, ∀ f, N ≤ f → g (f + 1) = v) : Ev g v := by
  obtain ⟨N, hN⟩ := h
  refine ⟨N + 1, fun f hf => ?_⟩
  obtain ⟨k, rfl⟩ : ∃ k, f = k + 1 := ⟨f - 1, by omega⟩
  exact hN k (by omega)

theorem Ev.both {α β : Type} {g : Nat → α} {h : Nat → β} {v : α} {w : β} (hg : Ev g v) (hh : Ev h w) :
    ∃ N, ∀ f, N ≤ f → g f = v ∧ h f = w := by
  obtain ⟨N1, h1⟩ := hg
  obtain ⟨N2, h2⟩ := hh
  exact ⟨max N1 N2, fun f hf => ⟨h1 f (by omega), h2 f (by omega)⟩⟩

theorem Ev.congr {α : Type} {g h : Nat → α} {v : α} (hg : Ev g v) (e : ∃ N, ∀ f, N ≤ f → h f = g f) : Ev h v := by
  obtain ⟨N1, h1⟩ := hg
  obtain ⟨N2, h2⟩ := e
  exact ⟨max N1 N2, fun f hf => by rw [h2 f (by omega), h1 f (by omega)]⟩

@[simp] theorem curTy_cons (t : Tok) (r : List Tok) : curTy (t :: r) = t.ty := rfl
@[simp] theorem curVal_cons (t : Tok) (r : List Tok) : curVal (t :: r) = t.val := rfl
theorem adv_cons (t : Tok) (r : List Tok) (h : r ≠ []) : adv (t :: r) = r := by
  cases r with
  | nil => exact absurd rfl h
  | cons u r => rfl
@[simp] theorem adv_cons2 (t u : Tok) (r : List Tok) : adv (t :: u :: r) = u :: r := rfl
@[simp] theorem peekTy_zero (t : Tok) (r : List Tok) : peekTy (t :: r) 0 = t.ty := rfl
@[simp] theorem peekTy_succ (t : Tok) (r : List Tok) (k : Nat) : peekTy (t :: r) (k + 1) = peekTy r k := by
  simp [peekTy]
@[simp] theorem peekVal_succ (t : Tok) (r : List Tok) (k : Nat) : peekVal (t :: r) (k + 1) = peekVal r k := by
  simp [peekVal]
theorem peekTy_zero' (r : List Tok) : peekTy r 0 = curTy r := by
  cases r <;> simp [peekTy, curTy]
theorem peekVal_zero' (r : List Tok) : peekVal r 0 = curVal r := by
  cases r <;> simp [peekVal, curVal]

/-- token kinds a spelling can start with when it does not start with an operator -/
def primHead (t : TT) : Prop :=
  t = .T_NUMBER ∨ t = .T_IDENTIFIER ∨ t = .T_TRUE ∨ t = .T_FALSE ∨ t = .T_LPAREN

theorem headO (e : ST) (h : e.validO) : ∃ t r, printO e = t :: r ∧ (primHead t.ty ∨ (startsOp e = true ∧ isUnOp t.ty)) := by
  match e with
  | .num b => exact ⟨_, _, rfl, .inl (.inl rfl)⟩
  | .var b => exact ⟨_, _, rfl, .inl (.inr (.inl rfl))⟩
  | .tru => exact ⟨_, _, rfl, .inl (.inr (.inr (.inl rfl)))⟩
  | .fls => exact ⟨_, _, rfl, .inl (.inr (.inr (.inr (.inl rfl))))⟩
  | .un true op x => exact ⟨_, _, rfl, .inl (.inr (.inr (.inr (.inr rfl))))⟩
  | .un false op x => exact ⟨_, _, rfl, .inr ⟨rfl, by simp [ST.validO] at h; exact h.1⟩⟩
  | .bin true op a b => exact ⟨_, _, rfl, .inl (.inr (.inr (.inr (.inr rfl))))⟩
  | .bin false op a b => exact ⟨_, _, rfl, .inl (.inr (.inr (.inr (.inr rfl))))⟩
  | .call f args => exact ⟨_, _, rfl, .inl (.inr (.inr (.inr (.inr rfl))))⟩
  | .field x n =>
    simp only [ST.validO] at h
    obtain ⟨t, r, hp, ht⟩ := headO x h.2.1
    refine ⟨t, r ++ [tk .T_DOT, tk .T_IDENTIFIER n], by simp [printO, hp], ?_⟩
    rcases ht with ht | ht
    · exact .inl ht
    · exact .inr ⟨by simpa [startsOp] using ht.1, ht.2⟩

/-- `printL` and `printO` differ only on an unparenthesised infix node -/
theorem printL_eq_printO (e : ST) (h : ∀ op a b, e ≠ .bin false op a b) : printL e = printO e := by
  cases e with
  | bin pre op a b => cases pre with
    | true => simp [printL, printO]
    | false => exact absurd rfl (h op a b)
  | un pre op x => cases pre <;> simp [printL, printO]
  | _ => simp [printL, printO]

theorem validL_validO (e : ST) (h : ∀ op a b, e ≠ .bin false op a b) (hv : e.validL) : e.validO := by
  cases e with
  | bin pre op a b => cases pre with
    | true => simpa [ST.validL, ST.validO] using hv
    | false => exact absurd rfl (h op a b)
  | un pre op x => cases pre <;> simpa [ST.validL, ST.validO] using hv
  | _ => simpa [ST.validL, ST.validO] using hv

theorem headL (e : ST) (h : e.validL) : ∃ t r, printL e = t :: r ∧ (primHead t.ty ∨ (startsOp e = true ∧ isUnOp t.ty)) := by
  match e with
  | .bin false op a b =>
    simp only [ST.validL] at h
    obtain ⟨t, r, hp, ht⟩ := headL a h.2.1
    refine ⟨t, r ++ [tk op] ++ printO b, by simp [printL, hp], ?_⟩
    rcases ht with ht | ht
    · exact .inl ht
    · exact .inr ⟨by simpa [startsOp] using ht.1, ht.2⟩
  | .num b => exact ⟨_, _, rfl, .inl (.inl rfl)⟩
  | .var b => exact ⟨_, _, rfl, .inl (.inr (.inl rfl))⟩
  | .tru => exact ⟨_, _, rfl, .inl (.inr (.inr (.inl rfl)))⟩
  | .fls => exact ⟨_, _, rfl, .inl (.inr (.inr (.inr (.inl rfl))))⟩
  | .un true op x => exact ⟨_, _, rfl, .inl (.inr (.inr (.inr (.inr rfl))))⟩
  | .un false op x => exact ⟨_, _, rfl, .inr ⟨rfl, by simp [ST.validL] at h; exact h.1⟩⟩
  | .bin true op a b => exact ⟨_, _, rfl, .inl (.inr (.inr (.inr (.inr rfl))))⟩
  | .call f args => exact ⟨_, _, rfl, .inl (.inr (.inr (.inr (.inr rfl))))⟩
  | .field x n =>
    have hv : (ST.field x n).validO := by simpa [ST.validL, ST.validO] using h
    obtain ⟨t, r, hp, ht⟩ := headO _ hv
    exact ⟨t, r, by simpa [printL, printO] using hp, ht⟩



theorem postfix_stop (f : Nat) (e : Expr) (ts : List Tok) (h : curTy ts ≠ .T_DOT) :
    postfixChain (f + 1) e ts = .ok (e, ts) := by
  simp [postfixChain, h]

theorem postfix_field (f : Nat) (e : Expr) (n : Bytes) (rest : List Tok) (hn : lowerId n) (hr : rest ≠ []) :
    postfixChain (f + 1) e (tk .T_DOT :: tk .T_IDENTIFIER n :: rest) =
      postfixChain f (.field e (bytesToString n)) rest := by
  simp [postfixChain, tk, adv_cons _ _ hr]
  intro _ h1 h2
  simp [lowerId] at hn
  simp [hn] at h2

theorem exprLoop_done (f d : Nat) (e e1 : Expr) (ts r : List Tok)
    (h1 : postfixChain f e ts = .ok (e1, r)) (h2 : infixOps.contains (curTy r) = false) :
    exprLoop (f + 1) d e ts = .ok (e1, r) := by
  simp [exprLoop, h1, h2]
  intro h; simp [h] at h2

theorem exprLoop_step (f d : Nat) (e e1 rhs rhs' : Expr) (ts r r2 r3 : List Tok)
    (h1 : postfixChain f e ts = .ok (e1, r)) (h2 : infixOps.contains (curTy r) = true)
    (h3 : parsePrimary f d (adv r) = .ok (rhs, r2)) (h4 : postfixChain f rhs r2 = .ok (rhs', r3)) :
    exprLoop (f + 1) d e ts = exprLoop f d (.prefixOp (curTy r) [e1, rhs']) r3 := by
  simp [exprLoop, h1, h3, h4]
  intro h; simp at h2; exact absurd h2 h


def GoodRest (rest : List Tok) : Prop :=
  rest ≠ [] ∧ curTy rest ≠ .T_DOUBLE_COLON ∧ (curTy rest = .T_DOT → isUpperFirst (peekVal rest 1) = false)

theorem prim_num (f d : Nat) (b : Bytes) (rest : List Tok) (hr : rest ≠ []) :
    parsePrimary (f + 1) d (tk .T_NUMBER b :: rest) = .ok (.num (atoll b), rest) := by
  simp [parsePrimary, tk, adv_cons _ _ hr]

theorem prim_true (f d : Nat) (rest : List Tok) (hr : rest ≠ []) :
    parsePrimary (f + 1) d (tk .T_TRUE :: rest) = .ok (.bool true, rest) := by
  simp [parsePrimary, tk, adv_cons _ _ hr]

theorem prim_false (f d : Nat) (rest : List Tok) (hr : rest ≠ []) :
    parsePrimary (f + 1) d (tk .T_FALSE :: rest) = .ok (.bool false, rest) := by
  simp [parsePrimary, tk, adv_cons _ _ hr]

theorem prim_ident (f d : Nat) (b : Bytes) (rest : List Tok) (hb : lowerId b) (hr : GoodRest rest) :
    parsePrimary (f + 1) d (tk .T_IDENTIFIER b :: rest) = .ok (.ident (bytesToString b), rest) := by
  obtain ⟨hne, hdc, hdot⟩ := hr
  simp only [lowerId] at hb
  simp only [parsePrimary, tk, curTy_cons, curVal_cons, peekTy_succ, peekVal_succ, peekTy_zero', adv_cons _ _ hne, hb]
  by_cases hq : curTy rest = .T_DOT
  · simp [hq, hdot hq, hdc]
  · simp [hq, hdc]


theorem prim_unary (f d : Nat) (op : TT) (ts r r' : List Tok) (e e' : Expr) (hop : isUnOp op) (hts : ts ≠ [])
    (h1 : parsePrimary f d ts = .ok (e, r)) (h2 : postfixChain f e r = .ok (e', r')) :
    parsePrimary (f + 1) d (tk op :: ts) = .ok (.prefixOp op [e'], r') := by
  rcases hop with rfl | rfl <;> simp [parsePrimary, tk, adv_cons _ _ hts, h1, h2]

theorem isOperatorTok_of_un {op : TT} (h : isUnOp op) : isOperatorTok op = true := by
  rcases h with rfl | rfl <;> decide

theorem isOperatorTok_of_bin {op : TT} (h : isBinOp op) : isOperatorTok op = true := by
  simp [isOperatorTok, isBinOp] at *; exact .inl h

theorem prim_prefixop (f d : Nat) (op : TT) (ts r : List Tok) (args : List Expr) (hop : isOperatorTok op = true)
    (hts : ts ≠ []) (h1 : parseArgs f d ts [] = .ok (args, r)) :
    parsePrimary (f + 1) d (tk .T_LPAREN :: tk op :: ts) = .ok (.prefixOp op args, r) := by
  have hne : op ≠ .T_RPAREN := by intro h; subst h; simp [isOperatorTok] at hop; revert hop; decide
  simp [parsePrimary, tk, adv_cons _ _ hts, hop, hne, h1]


theorem primHead_not_op {t : TT} (h : primHead t) : isOperatorTok t = false ∧ t ≠ .T_RPAREN := by
  rcases h with rfl | rfl | rfl | rfl | rfl <;> exact ⟨by decide, by decide⟩

/-- `( chain )` -/
theorem prim_paren (f d : Nat) (t : Tok) (ts rest : List Tok) (op : TT) (args : List Expr)
    (ht : primHead t.ty) (hr : rest ≠ [])
    (h1 : parseExpr f d (t :: ts) = .ok (.prefixOp op args, tk .T_RPAREN :: rest)) :
    parsePrimary (f + 1) d (tk .T_LPAREN :: t :: ts) = .ok (.prefixOp op args, rest) := by
  obtain ⟨h2, h3⟩ := primHead_not_op ht
  simp [parsePrimary, tk, h2, h3, h1, adv_cons _ _ hr]

theorem ident_not_op : isOperatorTok .T_IDENTIFIER = false := by decide

/-- `( f )` -/
theorem prim_call0 (f d : Nat) (x : Bytes) (rest : List Tok) (hr : rest ≠ [])
    (h1 : parseExpr f d (tk .T_IDENTIFIER x :: tk .T_RPAREN :: rest) = .ok (.ident (bytesToString x), tk .T_RPAREN :: rest)) :
    parsePrimary (f + 1) d (tk .T_LPAREN :: tk .T_IDENTIFIER x :: tk .T_RPAREN :: rest) = .ok (.call (bytesToString x) [], rest) := by
  simp only [tk] at h1
  simp [parsePrimary, tk, ident_not_op, h1, adv_cons _ _ hr]

/-- `( f a1 … an )`, n ≥ 1 -/
theorem prim_call (f d : Nat) (x : Bytes) (t : Tok) (ts r : List Tok) (args : List Expr)
    (ht : primHead t.ty)
    (h1 : parseExpr f d (tk .T_IDENTIFIER x :: t :: ts) = .ok (.ident (bytesToString x), t :: ts))
    (h2 : parseArgs f d (t :: ts) [] = .ok (args, r)) :
    parsePrimary (f + 1) d (tk .T_LPAREN :: tk .T_IDENTIFIER x :: t :: ts) = .ok (.call (bytesToString x) args, r) := by
  simp only [tk] at h1
  have hc : t.ty ≠ .T_COMMA := by rcases ht with h | h | h | h | h <;> simp [h]
  have hp : t.ty ≠ .T_RPAREN := by rcases ht with h | h | h | h | h <;> simp [h]
  simp [parsePrimary, tk, ident_not_op, h1, hc, hp, h2]


def notSpecial (t : TT) : Prop := t ≠ .T_IF ∧ t ≠ .T_MATCH ∧ t ≠ .T_COND

theorem parseExpr_step (f d : Nat) (ts r : List Tok) (e : Expr) (v : PRes Expr)
    (hd : d + 1 ≤ maxRecursionDepth) (hs : notSpecial (curTy ts))
    (h1 : parsePrimary f (d + 1) ts = .ok (e, r)) (h2 : exprLoop f (d + 1) e r = v) :
    parseExpr (f + 1) d ts = v := by
  obtain ⟨a, b, c⟩ := hs
  have hd' : ¬ (d + 1 > maxRecursionDepth) := by omega
  simp only [parseExpr, hd', if_false]
  split <;> simp_all

theorem parseArgs_nil (f d : Nat) (rest : List Tok) (acc : List Expr) (hr : rest ≠ []) :
    parseArgs (f + 1) d (tk .T_RPAREN :: rest) acc = .ok (acc.reverse, rest) := by
  simp [parseArgs, tk, adv_cons _ _ hr]

theorem parseArgs_cons (f d : Nat) (ts r : List Tok) (e : Expr) (acc : List Expr)
    (h1 : curTy ts ≠ .T_RPAREN) (h2 : curTy ts ≠ .T_EOF) (h3 : parseExpr f d ts = .ok (e, r)) :
    parseArgs (f + 1) d ts acc = parseArgs f d r (e :: acc) := by
  simp [parseArgs, h1, h2, h3]



def StopDot (rest : List Tok) : Prop := rest ≠ [] ∧ curTy rest ≠ .T_DOT ∧ curTy rest ≠ .T_DOUBLE_COLON

theorem StopDot.good {rest : List Tok} (h : StopDot rest) : GoodRest rest :=
  ⟨h.1, h.2.2, fun hd => absurd hd h.2.1⟩

def noDotAfterUn (e : ST) (rest : List Tok) : Prop :=
  match e with
  | .un false _ _ => curTy rest ≠ .T_DOT
  | _ => True

/-- conclusion of the operand lemma: `parse_primary` consumes a prefix of the spelling and the postfix
    chain from there behaves like the postfix chain from the whole operand -/
def OpRes (e : ST) (d : Nat) (rest : List Tok) : Prop :=
  ∃ x r, Ev (fun f => parsePrimary f d (printO e ++ rest)) (.ok (x, r)) ∧
    ∀ v, Ev (fun f => postfixChain f e.toExpr rest) v → Ev (fun f => postfixChain f x r) v

/-- conclusion of the chain lemma, same idea one level up: the infix loop from the first primary behaves
    like the infix loop from the whole chain -/
def ChainRes (e : ST) (d : Nat) (rest : List Tok) : Prop :=
  ∃ x r, Ev (fun f => parsePrimary f (d + 1) (printL e ++ rest)) (.ok (x, r)) ∧
    ∀ v, Ev (fun f => exprLoop f (d + 1) e.toExpr rest) v → Ev (fun f => exprLoop f (d + 1) x r) v

theorem ev_postfix_stop (e : Expr) (ts : List Tok) (h : curTy ts ≠ .T_DOT) :
    Ev (fun f => postfixChain f e ts) (.ok (e, ts)) :=
  Ev.of_succ ⟨0, fun f _ => postfix_stop f e ts h⟩

theorem opRes_full {e : ST} {d : Nat} {rest : List Tok} (h : OpRes e d rest) (hd : curTy rest ≠ .T_DOT) :
    ∃ x r, Ev (fun f => parsePrimary f d (printO e ++ rest)) (.ok (x, r)) ∧
      Ev (fun f => postfixChain f x r) (.ok (e.toExpr, rest)) := by
  obtain ⟨x, r, h1, h2⟩ := h
  exact ⟨x, r, h1, h2 _ (ev_postfix_stop _ _ hd)⟩

theorem exprLoop_congr (k d : Nat) (x y : Expr) (r s : List Tok) (h : postfixChain k x r = postfixChain k y s) :
    exprLoop (k + 1) d x r = exprLoop (k + 1) d y s := by
  simp only [exprLoop]
  rw [h]

theorem chain_of_op {e : ST} {d : Nat} {rest : List Tok} (hp : printL e = printO e)
    (h : OpRes e (d + 1) rest) (hd : curTy rest ≠ .T_DOT) : ChainRes e d rest := by
  obtain ⟨x, r, h1, h2⟩ := opRes_full h hd
  refine ⟨x, r, by rw [hp]; exact h1, fun v hv => ?_⟩
  obtain ⟨N1, hN1⟩ := h2
  obtain ⟨N2, hN2⟩ := hv
  refine ⟨max N1 N2 + 2, fun f hf => ?_⟩
  obtain ⟨k, rfl⟩ : ∃ k, f = k + 2 := ⟨f - 2, by omega⟩
  have e2 : exprLoop (k + 2) (d + 1) e.toExpr rest = v := hN2 (k + 2) (by omega)
  have e1 : postfixChain (k + 1) x r = .ok (e.toExpr, rest) := hN1 (k + 1) (by omega)
  show exprLoop (k + 2) (d + 1) x r = v
  rw [← e2]
  apply exprLoop_congr
  rw [e1, postfix_stop k _ _ hd]

theorem isBinOp_ne_dot {op : TT} (h : isBinOp op) : op ≠ .T_DOT := by
  intro e; subst e; simp [isBinOp] at h; revert h; decide

theorem chain_step {a b : ST} {op : TT} {d : Nat} {rest : List Tok}
    (ha : ChainRes a d (tk op :: (printO b ++ rest))) (hb : OpRes b (d + 1) rest)
    (hop : isBinOp op) (hr : StopDot rest) : ChainRes (.bin false op a b) d rest := by
  obtain ⟨x, r, h1, h2⟩ := ha
  obtain ⟨xb, rb, hb1, hb2⟩ := opRes_full hb hr.2.1
  have hl : printL (.bin false op a b) ++ rest = printL a ++ (tk op :: (printO b ++ rest)) := by
    simp [printL, List.append_assoc]
  refine ⟨x, r, by rw [hl]; exact h1, fun v hv => h2 v ?_⟩
  obtain ⟨N0, hN0⟩ := hv
  obtain ⟨N1, hN1⟩ := hb1
  obtain ⟨N2, hN2⟩ := hb2
  refine ⟨max N0 (max N1 N2) + 2, fun f hf => ?_⟩
  obtain ⟨k, rfl⟩ : ∃ k, f = k + 2 := ⟨f - 2, by omega⟩
  have e0 : exprLoop (k + 1) (d + 1) (ST.bin false op a b).toExpr rest = v := hN0 (k + 1) (by omega)
  have e1 : parsePrimary (k + 1) (d + 1) (printO b ++ rest) = .ok (xb, rb) := hN1 (k + 1) (by omega)
  have e2 : postfixChain (k + 1) xb rb = .ok (b.toExpr, rest) := hN2 (k + 1) (by omega)
  show exprLoop (k + 2) (d + 1) a.toExpr (tk op :: (printO b ++ rest)) = v
  have hne : printO b ++ rest ≠ [] := by simp [hr.1]
  rw [exprLoop_step (k + 1) (d + 1) a.toExpr a.toExpr xb b.toExpr _ (tk op :: (printO b ++ rest)) rb rest
        (postfix_stop k _ _ (by simpa [tk] using isBinOp_ne_dot hop)) (by simpa [tk, isBinOp] using hop)
        (by rw [adv_cons _ _ hne]; exact e1) e2]
  simpa [ST.toExpr, tk] using e0

/-- a whole-expression position whose continuation is neither a postfix nor an infix operator -/
def StopRest (rest : List Tok) : Prop := StopDot rest ∧ infixOps.contains (curTy rest) = false

theorem parseL_of_chain {e : ST} {d : Nat} {rest : List Tok} (h : ChainRes e d rest)
    (hd : d + 1 ≤ maxRecursionDepth) (hs : notSpecial (curTy (printL e ++ rest))) (hr : StopRest rest) :
    Ev (fun f => parseExpr f d (printL e ++ rest)) (.ok (e.toExpr, rest)) := by
  obtain ⟨x, r, h1, h2⟩ := h
  have hloop : Ev (fun f => exprLoop f (d + 1) e.toExpr rest) (.ok (e.toExpr, rest)) :=
    ⟨2, fun f hf => by
      obtain ⟨k, rfl⟩ : ∃ k, f = k + 2 := ⟨f - 2, by omega⟩
      exact exprLoop_done (k + 1) (d + 1) _ _ _ _ (postfix_stop k _ _ hr.1.2.1) hr.2⟩
  obtain ⟨N1, hN1⟩ := h1
  obtain ⟨N2, hN2⟩ := h2 _ hloop
  refine ⟨max N1 N2 + 1, fun f hf => ?_⟩
  obtain ⟨k, rfl⟩ : ∃ k, f = k + 1 := ⟨f - 1, by omega⟩
  exact parseExpr_step k d _ r x _ hd hs (hN1 k (by omega)) (hN2 k (by omega))

theorem primHead_stop {t : TT} (h : primHead t) : t ≠ .T_DOT ∧ t ≠ .T_DOUBLE_COLON ∧ infixOps.contains t = false ∧
    t ≠ .T_RPAREN ∧ t ≠ .T_EOF ∧ notSpecial t := by
  rcases h with rfl | rfl | rfl | rfl | rfl <;> refine ⟨by decide, by decide, by decide, by decide, by decide, ?_⟩ <;>
    exact ⟨by decide, by decide, by decide⟩

theorem unop_head {t : TT} (h : isUnOp t) : t ≠ .T_RPAREN ∧ t ≠ .T_EOF ∧ notSpecial t := by
  rcases h with rfl | rfl <;> refine ⟨by decide, by decide, ?_⟩ <;> exact ⟨by decide, by decide, by decide⟩

def ST.validArgsTail : List ST → Prop
  | [] => True
  | a :: r => a.validL ∧ ST.validArgs r

theorem validArgs_tail {l : List ST} (h : ST.validArgs l) : ST.validArgsTail l := by
  cases l with
  | nil => trivial
  | cons a r => exact ⟨h.1, h.2.2⟩

/-- after an argument comes the next argument (which does not start with an operator) or the closing
    parenthesis -/
theorem args_stop (l : List ST) (rest : List Tok) (h : ST.validArgs l) :
    StopRest (printLs l ++ tk .T_RPAREN :: rest) := by
  cases l with
  | nil => exact ⟨⟨by simp [printLs], by simp [printLs, tk], by simp [printLs, tk]⟩, by simp [printLs, tk]; decide⟩
  | cons a r =>
    obtain ⟨t, tl, hp, ht⟩ := headL a h.1
    have hp' : primHead t.ty := by
      rcases ht with ht | ht
      · exact ht
      · rw [h.2.1] at ht; exact absurd ht.1 (by simp)
    obtain ⟨h1, h2, h3, _⟩ := primHead_stop hp'
    exact ⟨⟨by simp [printLs, hp], by simpa [printLs, hp] using h1, by simpa [printLs, hp] using h2⟩,
           by simpa [printLs, hp] using h3⟩

theorem head_notSpecial (e : ST) (rest : List Tok) (h : e.validL) : notSpecial (curTy (printL e ++ rest)) ∧
    curTy (printL e ++ rest) ≠ .T_RPAREN ∧ curTy (printL e ++ rest) ≠ .T_EOF := by
  obtain ⟨t, tl, hp, ht⟩ := headL e h
  rw [hp]
  rcases ht with ht | ht
  · obtain ⟨_, _, _, a, b, c⟩ := primHead_stop ht
    exact ⟨c, a, b⟩
  · obtain ⟨a, b, c⟩ := unop_head ht.2
    exact ⟨c, a, b⟩

theorem printL_ne_nil (e : ST) (h : e.validL) : printL e ≠ [] := by
  obtain ⟨t, tl, hp, _⟩ := headL e h
  simp [hp]

theorem printO_ne_nil (e : ST) (h : e.validO) : printO e ≠ [] := by
  obtain ⟨t, tl, hp, _⟩ := headO e h
  simp [hp]

mutual
def ST.sz : ST → Nat
  | .num _ => 1
  | .var _ => 1
  | .tru => 1
  | .fls => 1
  | .un _ _ e => e.sz + 3
  | .bin _ _ a b => a.sz + b.sz + 4
  | .call _ args => ST.szs args + 2
  | .field e _ => e.sz + 1
def ST.szs : List ST → Nat
  | [] => 0
  | a :: r => a.sz + ST.szs r + 1
end

theorem dL_eq (e : ST) (h : ∀ op a b, e ≠ .bin false op a b) : dL e = 1 + dO e := by
  cases e with
  | bin pre op a b => cases pre with
    | true => simp [dL, dO]
    | false => exact absurd rfl (h op a b)
  | un pre op x => cases pre <;> simp [dL, dO]
  | _ => simp [dL, dO]

theorem dL_pos (e : ST) : 1 ≤ dL e := by
  cases e with
  | bin pre op a b => cases pre with
    | true => simp [dL]
    | false => simp [dL]; omega
  | un pre op x => cases pre <;> simp [dL]
  | _ => simp [dL]

theorem parse_ident_expr (d : Nat) (x : Bytes) (rest : List Tok) (hx : lowerId x) (hd : d + 1 ≤ maxRecursionDepth)
    (hr : StopRest rest) :
    Ev (fun f => parseExpr f d (tk .T_IDENTIFIER x :: rest)) (.ok (.ident (bytesToString x), rest)) := by
  refine ⟨3, fun f hf => ?_⟩
  obtain ⟨k, rfl⟩ : ∃ k, f = k + 3 := ⟨f - 3, by omega⟩
  exact parseExpr_step (k + 2) d _ rest _ _ hd (by simp [tk]; exact ⟨by decide, by decide, by decide⟩)
    (prim_ident (k + 1) (d + 1) x rest hx hr.1.good)
    (exprLoop_done (k + 1) (d + 1) _ _ _ _ (postfix_stop k _ _ hr.1.2.1) hr.2)

mutual
theorem thmO (e : ST) (hv : e.validO) (d : Nat) (rest : List Tok) (hd : d + dO e ≤ maxRecursionDepth)
    (hr : GoodRest rest) (hu : noDotAfterUn e rest) : OpRes e d rest := by
  match e with
  | .num b =>
    exact ⟨_, rest, Ev.of_succ ⟨0, fun f _ => prim_num f d b rest hr.1⟩, fun v h => h⟩
  | .var b =>
    exact ⟨_, rest, Ev.of_succ ⟨0, fun f _ => prim_ident f d b rest hv hr⟩, fun v h => h⟩
  | .tru => exact ⟨_, rest, Ev.of_succ ⟨0, fun f _ => prim_true f d rest hr.1⟩, fun v h => h⟩
  | .fls => exact ⟨_, rest, Ev.of_succ ⟨0, fun f _ => prim_false f d rest hr.1⟩, fun v h => h⟩
  | .un true op x =>
    simp only [ST.validO] at hv
    simp only [dO] at hd
    have ha := thmArgs [x] ⟨hv.2, trivial⟩ d rest [] (by simpa [dLs] using hd) hr.1
    obtain ⟨N, hN⟩ := ha
    refine ⟨(ST.un true op x).toExpr, rest, Ev.of_succ ⟨N, fun f hf => ?_⟩, fun v h => h⟩
    have hne : printL x ++ tk .T_RPAREN :: rest ≠ [] := by simp
    have := prim_prefixop f d op (printL x ++ tk .T_RPAREN :: rest) rest [x.toExpr] (isOperatorTok_of_un hv.1) hne
      (by simpa [printLs, ST.toExprs] using hN f hf)
    simpa [printO, ST.toExpr, List.append_assoc] using this
  | .un false op x =>
    simp only [ST.validO] at hv
    simp only [dO] at hd
    simp only [noDotAfterUn] at hu
    have hx := thmO x hv.2 d rest hd hr (by cases x <;> simp [noDotAfterUn] <;> (try split) <;> simp_all)
    obtain ⟨y, r, h1, h2⟩ := opRes_full hx hu
    obtain ⟨N, hN⟩ := Ev.both h1 h2
    refine ⟨(ST.un false op x).toExpr, rest, Ev.of_succ ⟨N, fun f hf => ?_⟩, fun v h => h⟩
    have hne : printO x ++ rest ≠ [] := by simp [hr.1]
    have := prim_unary f d op (printO x ++ rest) r rest y x.toExpr hv.1 hne (hN f hf).1 (hN f hf).2
    simpa [printO, ST.toExpr] using this
  | .bin true op a b =>
    simp only [ST.validO] at hv
    simp only [dO] at hd
    have ha := thmArgs [a, b] ⟨hv.2.1, hv.2.2.1, hv.2.2.2, trivial⟩ d rest [] (by simpa [dLs] using hd) hr.1
    obtain ⟨N, hN⟩ := ha
    refine ⟨(ST.bin true op a b).toExpr, rest, Ev.of_succ ⟨N, fun f hf => ?_⟩, fun v h => h⟩
    have hne : printL a ++ (printL b ++ tk .T_RPAREN :: rest) ≠ [] := by simp
    have := prim_prefixop f d op (printL a ++ (printL b ++ tk .T_RPAREN :: rest)) rest [a.toExpr, b.toExpr]
      (isOperatorTok_of_bin hv.1) hne (by simpa [printLs, ST.toExprs, List.append_assoc] using hN f hf)
    simpa [printO, ST.toExpr, List.append_assoc] using this
  | .bin false op a b =>
    simp only [ST.validO] at hv
    simp only [dO] at hd
    have hrp : StopDot (tk .T_RPAREN :: rest) := ⟨by simp, by simp [tk], by simp [tk]⟩
    have hca := chainL a hv.2.1 d (tk op :: (printO b ++ tk .T_RPAREN :: rest)) (by omega)
      ⟨by simp, by simpa [tk] using isBinOp_ne_dot hv.1, by
        have : op ≠ .T_DOUBLE_COLON := by intro e; subst e; have := hv.1; simp [isBinOp] at this; revert this; decide
        simpa [tk] using this⟩
    have hob := thmO b hv.2.2.1 (d + 1) (tk .T_RPAREN :: rest) (by omega) hrp.good
      (by cases b <;> simp [noDotAfterUn] <;> (try split) <;> simp [tk])
    have hch := chain_step hca hob hv.1 hrp
    have hvl : (ST.bin false op a b).validL := by simp [ST.validL]; exact ⟨hv.1, hv.2.1, hv.2.2.1⟩
    have hpl := parseL_of_chain hch (by omega) (head_notSpecial _ _ hvl).1
      ⟨hrp, by simp [tk]; decide⟩
    obtain ⟨N, hN⟩ := hpl
    obtain ⟨t, tl, hp, ht⟩ := headL a hv.2.1
    have hp' : primHead t.ty := by
      rcases ht with ht | ht
      · exact ht
      · rw [hv.2.2.2] at ht; exact absurd ht.1 (by simp)
    refine ⟨(ST.bin false op a b).toExpr, rest, Ev.of_succ ⟨N, fun f hf => ?_⟩, fun v h => h⟩
    have e1 : parseExpr f d (printL (ST.bin false op a b) ++ tk .T_RPAREN :: rest) = _ := hN f hf
    have hl : printL (ST.bin false op a b) ++ tk .T_RPAREN :: rest = t :: (tl ++ (tk op :: (printO b ++ tk .T_RPAREN :: rest))) := by
      simp [printL, hp, List.append_assoc]
    rw [hl] at e1
    have := prim_paren f d t _ rest op [a.toExpr, b.toExpr] hp' hr.1 (by simpa [ST.toExpr] using e1)
    simpa [printO, ST.toExpr, hp, List.append_assoc] using this
  | .call fn args =>
    simp only [ST.validO] at hv
    simp only [dO] at hd
    match args, hv, hd with
    | [], hv, hd =>
      have hs : StopRest (tk .T_RPAREN :: rest) := ⟨⟨by simp, by simp [tk], by simp [tk]⟩, by simp [tk]; decide⟩
      obtain ⟨N, hN⟩ := parse_ident_expr d fn (tk .T_RPAREN :: rest) hv.1 (by omega) hs
      refine ⟨(ST.call fn []).toExpr, rest, Ev.of_succ ⟨N, fun f hf => ?_⟩, fun v h => h⟩
      have := prim_call0 f d fn rest hr.1 (hN f hf)
      simpa [printO, printLs, ST.toExpr, ST.toExprs] using this
    | a :: l, hv, hd =>
      obtain ⟨t, tl, hp, ht⟩ := headL a hv.2.1
      have hp' : primHead t.ty := by
        rcases ht with ht | ht
        · exact ht
        · rw [hv.2.2.1] at ht; exact absurd ht.1 (by simp)
      have hargs := thmArgs (a :: l) (validArgs_tail hv.2) d rest [] (by omega) hr.1
      have hl : printLs (a :: l) ++ tk .T_RPAREN :: rest = t :: (tl ++ (printLs l ++ tk .T_RPAREN :: rest)) := by
        simp [printLs, hp, List.append_assoc]
      have hs : StopRest (t :: (tl ++ (printLs l ++ tk .T_RPAREN :: rest))) := by
        rw [← hl]; exact args_stop (a :: l) rest hv.2
      obtain ⟨N, hN⟩ := Ev.both (parse_ident_expr d fn _ hv.1 (by omega) hs) hargs
      refine ⟨(ST.call fn (a :: l)).toExpr, rest, Ev.of_succ ⟨N, fun f hf => ?_⟩, fun v h => h⟩
      have e2 : parseArgs f d (printLs (a :: l) ++ tk .T_RPAREN :: rest) [] = _ := (hN f hf).2
      rw [hl] at e2
      have := prim_call f d fn t _ rest (ST.toExprs (a :: l)) hp' (hN f hf).1 (by simpa using e2)
      simpa [printO, ST.toExpr, hl, List.append_assoc] using this
  | .field x n =>
    simp only [ST.validO] at hv
    simp only [dO] at hd
    have hr' : GoodRest (tk .T_DOT :: tk .T_IDENTIFIER n :: rest) := ⟨by simp, by simp [tk], fun _ => by
      have := hv.1; simp [lowerId] at this; simpa [tk, peekVal] using this⟩
    have hx := thmO x hv.2.1 d _ hd hr' (by
      cases x with
      | un pre op y => cases pre <;> simp_all [noDotAfterUn]
      | _ => simp [noDotAfterUn])
    obtain ⟨y, r, h1, h2⟩ := hx
    refine ⟨y, r, by simpa [printO, List.append_assoc] using h1, fun v hv' => h2 v ?_⟩
    obtain ⟨N, hN⟩ := hv'
    refine Ev.of_succ ⟨N, fun f hf => ?_⟩
    rw [postfix_field f _ n rest hv.1 hr.1]
    exact hN f hf
termination_by (e.sz, 0)
decreasing_by all_goals (simp_wf; simp only [ST.sz, ST.szs]; first | (apply Prod.Lex.left; omega) | (apply Prod.Lex.right; omega) | omega)

theorem chainL (e : ST) (hv : e.validL) (d : Nat) (rest : List Tok) (hd : d + dL e ≤ maxRecursionDepth)
    (hr : StopDot rest) : ChainRes e d rest := by
  match e with
  | .bin false op a b =>
    simp only [ST.validL] at hv
    simp only [dL] at hd
    have hca := chainL a hv.2.1 d (tk op :: (printO b ++ rest)) (by omega)
      ⟨by simp, by simpa [tk] using isBinOp_ne_dot hv.1, by
        have : op ≠ .T_DOUBLE_COLON := by intro e; subst e; have := hv.1; simp [isBinOp] at this; revert this; decide
        simpa [tk] using this⟩
    have hob := thmO b hv.2.2 (d + 1) rest (by omega) hr.good
      (by cases b <;> simp [noDotAfterUn] <;> (try split) <;> simp [hr.2.1])
    exact chain_step hca hob hv.1 hr
  | .num b => exact chain_of_op rfl (thmO _ (by simp [ST.validO]) (d + 1) rest (by simp [dL, dO] at *; omega) hr.good trivial) hr.2.1
  | .var b => exact chain_of_op rfl (thmO _ (by simpa [ST.validO, ST.validL] using hv) (d + 1) rest (by simp [dL, dO] at *; omega) hr.good trivial) hr.2.1
  | .tru => exact chain_of_op rfl (thmO _ (by simp [ST.validO]) (d + 1) rest (by simp [dL, dO] at *; omega) hr.good trivial) hr.2.1
  | .fls => exact chain_of_op rfl (thmO _ (by simp [ST.validO]) (d + 1) rest (by simp [dL, dO] at *; omega) hr.good trivial) hr.2.1
  | .un true op x => exact chain_of_op (by simp [printL, printO]) (thmO _ (by simpa [ST.validO, ST.validL] using hv) (d + 1) rest (by simp [dL, dO] at *; omega) hr.good trivial) hr.2.1
  | .un false op x => exact chain_of_op (by simp [printL, printO]) (thmO _ (by simpa [ST.validO, ST.validL] using hv) (d + 1) rest (by simp [dL, dO] at *; omega) hr.good hr.2.1) hr.2.1
  | .bin true op a b => exact chain_of_op (by simp [printL, printO]) (thmO _ (by simpa [ST.validO, ST.validL] using hv) (d + 1) rest (by simp [dL, dO] at *; omega) hr.good trivial) hr.2.1
  | .call fn args => exact chain_of_op (by simp [printL, printO]) (thmO _ (by simpa [ST.validO, ST.validL] using hv) (d + 1) rest (by simp [dL, dO] at *; omega) hr.good trivial) hr.2.1
  | .field x n => exact chain_of_op (by simp [printL, printO]) (thmO _ (by simpa [ST.validO, ST.validL] using hv) (d + 1) rest (by simp [dL, dO] at *; omega) hr.good trivial) hr.2.1
termination_by (e.sz, 1)
decreasing_by all_goals (simp_wf; simp only [ST.sz, ST.szs]; first | (apply Prod.Lex.left; omega) | (apply Prod.Lex.right; omega) | omega)

theorem thmArgs (l : List ST) (hv : ST.validArgsTail l) (d : Nat) (rest : List Tok) (acc : List Expr)
    (hd : d + dLs l ≤ maxRecursionDepth) (hr : rest ≠ []) :
    Ev (fun f => parseArgs f d (printLs l ++ tk .T_RPAREN :: rest) acc) (.ok (acc.reverse ++ ST.toExprs l, rest)) := by
  match l, hv, hd with
  | [], _, _ =>
    exact Ev.of_succ ⟨0, fun f _ => by simpa [printLs, ST.toExprs] using parseArgs_nil f d rest acc hr⟩
  | a :: l', hv, hd =>
    simp only [dLs] at hd
    have hs := args_stop l' rest hv.2
    have hch := chainL a hv.1 d (printLs l' ++ tk .T_RPAREN :: rest) (by omega) hs.1
    have hpa := parseL_of_chain hch (by have := dL_pos a; omega) (head_notSpecial _ _ hv.1).1 hs
    have ih := thmArgs l' (validArgs_tail hv.2) d rest (a.toExpr :: acc) (by omega) hr
    obtain ⟨N, hN⟩ := Ev.both hpa ih
    refine Ev.of_succ ⟨N, fun f hf => ?_⟩
    have hh := head_notSpecial a (printLs l' ++ tk .T_RPAREN :: rest) hv.1
    have e1 : parseExpr f d (printL a ++ (printLs l' ++ tk .T_RPAREN :: rest)) = _ := (hN f hf).1
    have := parseArgs_cons f d _ _ _ acc hh.2.1 hh.2.2 e1
    simp only [printLs, List.append_assoc]
    rw [this]
    simpa [ST.toExprs] using (hN f hf).2
termination_by (ST.szs l, 0)
decreasing_by all_goals (simp_wf; simp only [ST.sz, ST.szs]; first | (apply Prod.Lex.left; omega) | (apply Prod.Lex.right; omega) | omega)
end


end NanoVerif
