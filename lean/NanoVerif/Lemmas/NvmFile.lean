/-
File-level round trip of the .nvm container: `deserialize (serialize m)` recovers the module.
Builds on the per-section lemmas of Lemmas/NvmRt.lean.
-/
import NanoVerif.Lemmas.NvmRt
import NanoVerif.Lemmas.Crc

namespace NanoVerif

/-! ### debug section -/

def DebugEntry.wf (d : DebugEntry) : Prop := d.bytecodeOffset < 256 ^ 4 ∧ d.sourceLine < 256 ^ 4

theorem serDebug_length (d : DebugEntry) : (serDebug d).length = 8 := by simp [serDebug]

theorem parseDebug_ser (pre post : Bytes) (hde : Gen.debugEntrySize = 8) (ds : List DebugEntry) :
    ∀ (done : Bytes) (acc : List DebugEntry) (fuel : Nat),
      (done ++ ds.flatMap serDebug).length + 8 < 4294967296 →
      (∀ d ∈ ds, d.wf) → ds.length < fuel →
      parseDebug (pre ++ (done ++ ds.flatMap serDebug) ++ post) pre.length (done ++ ds.flatMap serDebug).length fuel done.length acc
        = .ok (acc ++ ds) := by
  induction ds with
  | nil =>
    intro done acc fuel hsz _ hf
    cases fuel with
    | zero => omega
    | succ fuel =>
      simp only [parseDebug, List.flatMap_nil, List.append_nil, hde]
      have : ¬ (u32 (done.length + 8) ≤ done.length) := by
        rw [u32_of_lt (by simp at hsz; omega)]; omega
      rw [if_neg this]
  | cons d ds ih =>
    intro done acc fuel hsz hwf hf
    cases fuel with
    | zero => simp at hf
    | succ fuel =>
      obtain ⟨w1, w2⟩ := hwf d (by simp)
      simp only [List.flatMap_cons] at hsz ⊢
      simp only [parseDebug, hde]
      have hsize : (done ++ (serDebug d ++ ds.flatMap serDebug)).length = done.length + 8 + (ds.flatMap serDebug).length := by
        simp [serDebug_length]; omega
      rw [hsize] at hsz ⊢
      rw [if_pos (by rw [u32_of_lt (by omega)]; omega)]
      have r1 : rd (pre ++ (done ++ (serDebug d ++ ds.flatMap serDebug)) ++ post) (pre.length + done.length) 4 = .ok d.bytecodeOffset :=
        rd_le _ (pre ++ done) (leBytes 4 d.sourceLine ++ ds.flatMap serDebug ++ post) _ 4 _ w1 (by simp [serDebug, List.append_assoc]) (by simp)
      have r2 : rd (pre ++ (done ++ (serDebug d ++ ds.flatMap serDebug)) ++ post) (pre.length + done.length + 4) 4 = .ok d.sourceLine :=
        rd_le _ (pre ++ done ++ leBytes 4 d.bytecodeOffset) (ds.flatMap serDebug ++ post) _ 4 _ w2 (by simp [serDebug, List.append_assoc]) (by simp; omega)
      rw [r1, r2]
      simp only [bind, Except.bind]
      have hre : pre ++ (done ++ (serDebug d ++ ds.flatMap serDebug)) ++ post
          = pre ++ ((done ++ serDebug d) ++ ds.flatMap serDebug) ++ post := by simp [List.append_assoc]
      have hl2 : done.length + 8 + (ds.flatMap serDebug).length = ((done ++ serDebug d) ++ ds.flatMap serDebug).length := by
        simp [serDebug_length]; omega
      have hp2 : done.length + 8 = (done ++ serDebug d).length := by simp [serDebug_length]
      rw [hre, hl2, hp2]
      rw [ih (done ++ serDebug d) _ fuel (by rw [← hl2]; exact hsz) (fun t ht => hwf t (List.mem_cons_of_mem _ ht)) (by simpa using hf)]
      cases d
      simp

/-! ### sections as data -/

inductive Sec
  | strings (ss : List Bytes)
  | code (c : Bytes)
  | functions (fs : List FnEntry)
  | debug (ds : List DebugEntry)
  | imports (is : List ImportEntry)

def Sec.ty : Sec → Nat
  | .strings _ => Gen.secStrings | .code _ => Gen.secCode | .functions _ => Gen.secFunctions
  | .debug _ => Gen.secDebug | .imports _ => Gen.secImports

def Sec.bytes : Sec → Bytes
  | .strings ss => serStrings ss | .code c => c | .functions fs => fs.flatMap serFn
  | .debug ds => ds.flatMap serDebug | .imports is => is.flatMap serImport

/-- what loading the section adds to the module built so far -/
def Sec.apply (m : Module) : Sec → Module
  | .strings ss => { m with strings := ss.foldl (fun a s => (addString a s).1) m.strings }
  | .code c => { m with code := m.code ++ c }
  | .functions fs => { m with functions := m.functions ++ fs }
  | .debug ds => { m with debug := m.debug ++ ds }
  | .imports is => { m with imports := m.imports ++ is.map canonImport }

/-- entries fit their fields and the section is small enough for the loader's 32-bit loop tests -/
def Sec.wf : Sec → Prop
  | .strings ss => (∀ s ∈ ss, s.length < 4294967296) ∧ (serStrings ss).length + 4 < 4294967296
  | .code c => c.length < 4294967296
  | .functions fs => (∀ f ∈ fs, f.wf) ∧ (fs.flatMap serFn).length + 18 < 4294967296
  | .debug ds => (∀ d ∈ ds, d.wf) ∧ (ds.flatMap serDebug).length + 8 < 4294967296
  | .imports is => (∀ i ∈ is, i.wf) ∧ (is.flatMap serImport).length + 65600 < 4294967296

theorem Sec.bytes_lt (s : Sec) (h : s.wf) : s.bytes.length < 4294967296 := by
  cases s <;> simp only [Sec.wf, Sec.bytes] at h ⊢ <;> omega

theorem entries_le_bytes_str (l : List Bytes) : l.length ≤ (serStrings l).length := by
  induction l with
  | nil => simp [serStrings]
  | cons a l ih => rw [serStrings_cons]; simp at ih ⊢; omega
theorem entries_le_bytes_fn (l : List FnEntry) : l.length ≤ (l.flatMap serFn).length := by
  induction l with
  | nil => simp
  | cons a l ih => simp only [List.flatMap_cons, List.length_append, serFn_length, List.length_cons]; omega
theorem entries_le_bytes_dbg (l : List DebugEntry) : l.length ≤ (l.flatMap serDebug).length := by
  induction l with
  | nil => simp
  | cons a l ih => simp only [List.flatMap_cons, List.length_append, serDebug_length, List.length_cons]; omega
theorem entries_le_bytes_imp (l : List ImportEntry) : l.length ≤ (l.flatMap serImport).length := by
  induction l with
  | nil => simp
  | cons a l ih => simp only [List.flatMap_cons, List.length_append, serImport_length, List.length_cons]; omega

/-- one iteration of the directory loop on a file in which directory entry `i` describes section `s`
    lying at `pre.length` -/
theorem loadSection_at (data pre post : Bytes) (s : Sec) (m : Module) (e i : Nat) (hw : s.wf)
    (hd : data = pre ++ s.bytes ++ post) (hsize : data.length < 4294967296)
    (r1 : rd data (Gen.headerSize + i * Gen.sectionEntrySize) 4 = .ok s.ty)
    (r2 : rd data (Gen.headerSize + i * Gen.sectionEntrySize + 4) 4 = .ok pre.length)
    (r3 : rd data (Gen.headerSize + i * Gen.sectionEntrySize + 8) 4 = .ok s.bytes.length) :
    loadSection data m e i = .ok (s.apply m, if pre.length + s.bytes.length > e then pre.length + s.bytes.length else e) := by
  unfold loadSection
  simp only [r1, r2, r3, bind, Except.bind]
  have hlen : data.length = pre.length + s.bytes.length + post.length := by rw [hd]; simp; omega
  have hc : ¬ (pre.length > data.length ∨ s.bytes.length > data.length - pre.length) := by omega
  simp only [Bool.or_eq_true, decide_eq_true_eq, hc, if_false]
  have d1 : (Gen.secCode == Gen.secStrings) = false := by decide
  have d2 : (Gen.secFunctions == Gen.secStrings) = false := by decide
  have d3 : (Gen.secFunctions == Gen.secCode) = false := by decide
  have d4 : (Gen.secDebug == Gen.secStrings) = false := by decide
  have d5 : (Gen.secDebug == Gen.secCode) = false := by decide
  have d6 : (Gen.secDebug == Gen.secFunctions) = false := by decide
  have d7 : (Gen.secImports == Gen.secStrings) = false := by decide
  have d8 : (Gen.secImports == Gen.secCode) = false := by decide
  have d9 : (Gen.secImports == Gen.secFunctions) = false := by decide
  have d10 : (Gen.secImports == Gen.secDebug) = false := by decide
  cases s with
  | strings ss =>
    simp only [Sec.ty, Sec.bytes, Sec.apply, beq_self_eq_true, if_true] at hd ⊢
    obtain ⟨h1, h2⟩ := hw
    have := parseStrings_ser pre post ss [] m.strings ((serStrings ss).length + 1) (by simpa using h2) h1
      (by have := entries_le_bytes_str ss; omega)
    simp only [List.nil_append, List.length_nil] at this
    rw [hd, this]
    rfl
  | code c =>
    simp only [Sec.ty, Sec.bytes, Sec.apply, d1, beq_self_eq_true, if_true, Bool.false_eq_true, if_false] at hd ⊢
    rw [rdBytes_mid data pre c post _ _ hd rfl rfl]
    rfl
  | functions fs =>
    simp only [Sec.ty, Sec.bytes, Sec.apply, d2, d3, beq_self_eq_true, if_true, Bool.false_eq_true, if_false] at hd ⊢
    obtain ⟨h1, h2⟩ := hw
    have := parseFunctions_ser pre post (by decide) fs [] m.functions ((fs.flatMap serFn).length + 1) (by simpa using h2) h1
      (by have := entries_le_bytes_fn fs; omega)
    simp only [List.nil_append, List.length_nil] at this
    rw [hd, this]
    rfl
  | debug ds =>
    simp only [Sec.ty, Sec.bytes, Sec.apply, d4, d5, d6, beq_self_eq_true, if_true, Bool.false_eq_true, if_false] at hd ⊢
    obtain ⟨h1, h2⟩ := hw
    have := parseDebug_ser pre post (by decide) ds [] m.debug ((ds.flatMap serDebug).length + 1) (by simpa using h2) h1
      (by have := entries_le_bytes_dbg ds; omega)
    simp only [List.nil_append, List.length_nil] at this
    rw [hd, this]
    rfl
  | imports is =>
    simp only [Sec.ty, Sec.bytes, Sec.apply, d7, d8, d9, d10, beq_self_eq_true, if_true, Bool.false_eq_true, if_false] at hd ⊢
    obtain ⟨h1, h2⟩ := hw
    have := parseImports_ser pre post (by decide) is [] m.imports ((is.flatMap serImport).length + 1) (by simpa using h2) h1
      (by have := entries_le_bytes_imp is; omega)
    simp only [List.nil_append, List.length_nil] at this
    rw [hd, this]
    rfl

/-! ### the directory and the loop over it -/

def secPairs (secs : List Sec) : List (Nat × Bytes) := secs.map (fun s => (s.ty, s.bytes))
def bodyBytes (secs : List Sec) : Bytes := secs.flatMap Sec.bytes

theorem dirEntries_length (off : Nat) (l : List (Nat × Bytes)) : (dirEntries off l).length = 12 * l.length := by
  induction l generalizing off with
  | nil => rfl
  | cons a r ih => obtain ⟨ty, d⟩ := a; simp [dirEntries, ih]; omega

theorem dirEntries_append (off : Nat) (a b : List (Nat × Bytes)) :
    dirEntries off (a ++ b) = dirEntries off a ++ dirEntries (off + (a.flatMap (·.2)).length) b := by
  induction a generalizing off with
  | nil => simp [dirEntries]
  | cons x r ih =>
    obtain ⟨ty, d⟩ := x
    simp only [List.cons_append, dirEntries, ih, List.flatMap_cons, List.length_append, List.append_assoc]
    rw [Nat.add_assoc]

theorem secPairs_flat (secs : List Sec) : (secPairs secs).flatMap (·.2) = bodyBytes secs := by
  unfold secPairs bodyBytes
  induction secs with
  | nil => rfl
  | cons a r ih => simp [ih]

theorem Sec.ty_lt (s : Sec) : s.ty < 256 ^ 4 := by cases s <;> simp only [Sec.ty] <;> decide

/-- the directory loop over a file `H ++ directory ++ section data` -/
theorem loadSections_file (H : Bytes) (hH : H.length = Gen.headerSize) (secs : List Sec) (hw : ∀ s ∈ secs, s.wf)
    (data : Bytes) (hd : data = H ++ dirEntries (Gen.headerSize + Gen.sectionEntrySize * secs.length) (secPairs secs) ++ bodyBytes secs)
    (hsize : data.length < 4294967296) :
    ∀ (todo done : List Sec) (m : Module), secs = done ++ todo →
      loadSections data todo.length done.length m (Gen.headerSize + Gen.sectionEntrySize * secs.length + (bodyBytes done).length)
        = .ok (todo.foldl Sec.apply m, Gen.headerSize + Gen.sectionEntrySize * secs.length + (bodyBytes secs).length) := by
  have hse : Gen.sectionEntrySize = 12 := by decide
  intro todo
  induction todo with
  | nil =>
    intro done m hs
    simp only [List.append_nil] at hs
    subst hs
    simp [loadSections]
  | cons s rest ih =>
    intro done m hs
    simp only [List.length_cons, loadSections]
    have hws : s.wf := hw s (by rw [hs]; simp)
    -- where entry `done.length` and the section lie in the file
    let off0 := Gen.headerSize + Gen.sectionEntrySize * secs.length
    have hdir : dirEntries off0 (secPairs secs) =
        dirEntries off0 (secPairs done) ++ (leBytes 4 s.ty ++ leBytes 4 (off0 + (bodyBytes done).length) ++ leBytes 4 s.bytes.length ++
          dirEntries (off0 + (bodyBytes done).length + s.bytes.length) (secPairs rest)) := by
      have : secPairs secs = secPairs done ++ ((s.ty, s.bytes) :: secPairs rest) := by rw [hs]; simp [secPairs]
      rw [this, dirEntries_append, secPairs_flat]
      simp [dirEntries, List.append_assoc]
    have hbody : bodyBytes secs = bodyBytes done ++ s.bytes ++ bodyBytes rest := by rw [hs]; simp [bodyBytes]
    have hdl : (dirEntries off0 (secPairs done)).length = 12 * done.length := by rw [dirEntries_length]; simp [secPairs]
    have hlen : data.length = Gen.headerSize + 12 * secs.length + (bodyBytes secs).length := by
      rw [hd, List.length_append, List.length_append, dirEntries_length, hH]; simp [secPairs]
    have hbl : (bodyBytes secs).length = (bodyBytes done).length + s.bytes.length + (bodyBytes rest).length := by rw [hbody]; simp; omega
    have hidx : Gen.headerSize + done.length * Gen.sectionEntrySize = (H ++ dirEntries off0 (secPairs done)).length := by
      rw [List.length_append, hH, hdl, hse]; omega
    have r1 : rd data (Gen.headerSize + done.length * Gen.sectionEntrySize) 4 = .ok s.ty :=
      rd_le data (H ++ dirEntries off0 (secPairs done))
        (leBytes 4 (off0 + (bodyBytes done).length) ++ leBytes 4 s.bytes.length ++ dirEntries (off0 + (bodyBytes done).length + s.bytes.length) (secPairs rest) ++ bodyBytes secs)
        _ 4 _ s.ty_lt (by rw [hd, hdir]; simp [List.append_assoc]) hidx
    have r2 : rd data (Gen.headerSize + done.length * Gen.sectionEntrySize + 4) 4 = .ok (off0 + (bodyBytes done).length) :=
      rd_le data (H ++ dirEntries off0 (secPairs done) ++ leBytes 4 s.ty)
        (leBytes 4 s.bytes.length ++ dirEntries (off0 + (bodyBytes done).length + s.bytes.length) (secPairs rest) ++ bodyBytes secs)
        _ 4 _ (by show off0 + _ < 256 ^ 4; simp only [off0, hse]; omega) (by rw [hd, hdir]; simp [List.append_assoc])
        (by rw [List.length_append, ← hidx]; simp)
    have r3 : rd data (Gen.headerSize + done.length * Gen.sectionEntrySize + 8) 4 = .ok s.bytes.length :=
      rd_le data (H ++ dirEntries off0 (secPairs done) ++ leBytes 4 s.ty ++ leBytes 4 (off0 + (bodyBytes done).length))
        (dirEntries (off0 + (bodyBytes done).length + s.bytes.length) (secPairs rest) ++ bodyBytes secs)
        _ 4 _ (by show _ < 256 ^ 4; omega) (by rw [hd, hdir]; simp [List.append_assoc])
        (by rw [List.length_append, List.length_append, ← hidx]; simp)
    have hpre : data = (H ++ dirEntries off0 (secPairs secs) ++ bodyBytes done) ++ s.bytes ++ bodyBytes rest := by
      rw [hd, hbody]; simp [List.append_assoc, off0]
    have hprel : (H ++ dirEntries off0 (secPairs secs) ++ bodyBytes done).length = off0 + (bodyBytes done).length := by
      rw [List.length_append, List.length_append, hH, dirEntries_length]; simp [secPairs, off0, hse]
    have hls := loadSection_at data (H ++ dirEntries off0 (secPairs secs) ++ bodyBytes done) (bodyBytes rest) s m
      (off0 + (bodyBytes done).length) done.length hws hpre hsize r1 (by rw [hprel]; exact r2) r3
    rw [hls]
    simp only [bind, Except.bind, hprel]
    have he : (if off0 + (bodyBytes done).length + s.bytes.length > off0 + (bodyBytes done).length then off0 + (bodyBytes done).length + s.bytes.length
        else off0 + (bodyBytes done).length) = off0 + (bodyBytes (done ++ [s])).length := by
      have hsn : (bodyBytes (done ++ [s])).length = (bodyBytes done).length + s.bytes.length := by simp [bodyBytes]
      rw [hsn]
      by_cases hz : s.bytes.length = 0
      · rw [if_neg (by omega)]; omega
      · rw [if_pos (by omega)]; omega
    rw [he]
    have := ih (done ++ [s]) (s.apply m) (by rw [hs]; simp)
    simp only [List.length_append, List.length_cons, List.length_nil] at this
    rw [this]
    rfl

end NanoVerif
