/-
Helper lemmas for C14: the heap invariant bundled with the values a handler holds in C locals
(`HX roots heap extra`), closed under the primitive moves of every instruction handler
(pop, push, retain, release, allocate, intern a string, replace the children of an object).
-/
import NanoVerif.Lemmas.HeapInv
import NanoVerif.Model.Vm
namespace NanoVerif

/-! ### kinds: a value's variant agrees with the object at its address -/

def Obj.kind : Obj → Nat
  | .str _ => 0 | .arr .. => 1 | .struct .. => 2 | .union .. => 3 | .tuple _ => 4 | .clos .. => 5

def Val.okind : Val → Option Nat
  | .str _ => some 0 | .arr _ => some 1 | .struct _ => some 2 | .union _ => some 3 | .tuple _ => some 4
  | .clos _ => some 5 | _ => none

def KindOk (h : Heap) (v : Val) : Prop :=
  ∀ a c, v.addr? = some a → (a, c) ∈ h.cells → v.okind = some c.obj.kind

def Kinded (vals : List Val) (h : Heap) : Prop :=
  (∀ v ∈ vals, KindOk h v) ∧ (∀ p ∈ h.cells, ∀ v ∈ p.2.obj.kids, KindOk h v)

theorem KindOk_scalar (h : Heap) (v : Val) (hv : v.addr? = none) : KindOk h v := by
  intro a c ha; rw [hv] at ha; cases ha

/-! ### counting values -/

/-- `l'` holds no reference more often than `l` does -/
def LeVals (l' l : List Val) : Prop := ∀ v : Val, v.addr? ≠ none → l'.count v ≤ l.count v

theorem refs_count (l : List Val) (x : Nat) :
    (refsOf l).count x = l.count (.str x) + l.count (.arr x) + l.count (.struct x) + l.count (.union x)
      + l.count (.tuple x) + l.count (.hmap x) + l.count (.clos x) := by
  induction l with
  | nil => simp
  | cons v r ih =>
    rw [refsOf_cons, List.count_append, ih]
    simp only [List.count_cons]
    cases v
    all_goals first
      | (simp [Val.addr?]; done)
      | (rename_i a
         by_cases e : a = x
         · subst e; simp [Val.addr?]; omega
         · simp [Val.addr?, e])

theorem LeVals.refs {l' l : List Val} (h : LeVals l' l) (x : Nat) : (refsOf l').count x ≤ (refsOf l).count x := by
  rw [refs_count, refs_count]
  have h1 := h (.str x) (by simp [Val.addr?])
  have h2 := h (.arr x) (by simp [Val.addr?])
  have h3 := h (.struct x) (by simp [Val.addr?])
  have h4 := h (.union x) (by simp [Val.addr?])
  have h5 := h (.tuple x) (by simp [Val.addr?])
  have h6 := h (.hmap x) (by simp [Val.addr?])
  have h7 := h (.clos x) (by simp [Val.addr?])
  omega

theorem LeVals.mem {l' l : List Val} (h : LeVals l' l) (v : Val) (hv : v.addr? ≠ none) (hm : v ∈ l') : v ∈ l := by
  have := h v hv
  have hp : 0 < l'.count v := List.count_pos_iff.mpr hm
  exact List.count_pos_iff.mp (by omega)

theorem LeVals.refl (l : List Val) : LeVals l l := fun _ _ => Nat.le_refl _

theorem LeVals.trans {a b c : List Val} (h1 : LeVals a b) (h2 : LeVals b c) : LeVals a c :=
  fun v hv => Nat.le_trans (h1 v hv) (h2 v hv)

theorem count_scalar_list (l : List Val) (hl : ∀ w ∈ l, w.addr? = none) (v : Val) (hv : v.addr? ≠ none) : l.count v = 0 := by
  apply List.count_eq_zero.mpr
  intro hm; exact hv (hl v hm)

/-! ### the bundled invariant -/

structure HX (roots : List Val) (h : Heap) (extra : List Val) : Prop where
  nodup : h.keys.Nodup
  fresh : ∀ k ∈ h.keys, k < h.next
  clean : h.dangling = false
  rc : RcInv roots h extra
  closed : Closed roots h extra
  kinds : Kinded (roots ++ extra) h

theorem mem_refsOf {l : List Val} {v : Val} {a : Nat} (hm : v ∈ l) (ha : v.addr? = some a) : a ∈ refsOf l :=
  List.mem_filterMap.mpr ⟨v, hm, ha⟩

/-- a value held by the roots or by the handler is live -/
theorem HX.live {roots : List Val} {h : Heap} {extra : List Val} (hx : HX roots h extra) {v : Val} {a : Nat}
    (hm : v ∈ roots ++ extra) (ha : v.addr? = some a) : a ∈ h.keys := by
  apply hx.closed a
  rcases List.mem_append.mp hm with h1 | h1
  · simp [mem_refsOf h1 ha]
  · simp [mem_refsOf h1 ha]

/-- a child of a live object is live -/
theorem HX.live_kid {roots : List Val} {h : Heap} {extra : List Val} (hx : HX roots h extra) {p : Nat × Cell} {v : Val} {a : Nat}
    (hp : p ∈ h.cells) (hm : v ∈ p.2.obj.kids) (ha : v.addr? = some a) : a ∈ h.keys := by
  apply hx.closed a
  have : a ∈ heapRefs h := by
    unfold heapRefs
    exact List.mem_flatMap.mpr ⟨p, hp, mem_refsOf hm ha⟩
  simp [this]

/-- the invariant only depends on how often each reference is held -/
theorem HX.mono {roots roots' : List Val} {h : Heap} {extra extra' : List Val} (hx : HX roots h extra)
    (hle : LeVals (roots' ++ extra') (roots ++ extra)) : HX roots' h extra' := by
  have hcount : ∀ x, (refsOf roots' ++ refsOf extra').count x ≤ (refsOf roots ++ refsOf extra).count x := by
    intro x
    have := hle.refs x
    simpa [refsOf_append] using this
  have hmem : ∀ x, x ∈ refsOf roots' ++ refsOf extra' → x ∈ refsOf roots ++ refsOf extra := by
    intro x hx'
    have := hcount x
    have hp : 0 < (refsOf roots' ++ refsOf extra').count x := List.count_pos_iff.mpr hx'
    exact List.count_pos_iff.mp (by omega)
  refine ⟨hx.nodup, hx.fresh, hx.clean, RcInv_of_count _ _ _ _ _ hcount hx.rc, Closed_of_mem _ _ _ _ _ hmem hx.closed, ?_, hx.kinds.2⟩
  intro v hv
  by_cases hs : v.addr? = none
  · exact KindOk_scalar h v hs
  · exact hx.kinds.1 v (hle.mem v hs hv)

/-! ### heap algebra -/

theorem get?_set (h : Heap) (a b : Nat) (c : Cell) :
    (h.set a c).get? b = if b = a then (h.get? a).map (fun _ => c) else h.get? b := by
  unfold Heap.get? Heap.set
  simp only
  have hf : ((fun x : Nat × Cell => x.1 == b) ∘ fun p : Nat × Cell => if p.1 == a then (a, c) else p) = (fun x => x.1 == b) := by
    funext p
    simp only [Function.comp]
    by_cases hpa : p.1 = a
    · simp [hpa]
    · simp [hpa]
  rw [List.find?_map, hf]
  cases hfd : List.find? (fun x : Nat × Cell => x.1 == b) h.cells with
  | none => by_cases hba : b = a <;> simp [hba, hfd] <;> (subst hba; simp [hfd])
  | some p =>
    have hp := List.find?_some hfd
    simp only [beq_iff_eq] at hp
    by_cases hba : b = a
    · subst hba; simp [hfd, hp]
    · have : ¬ (p.1 = a) := fun e => hba (hp ▸ e)
      simp [hba, hfd, this]

theorem get?_set_ne (h : Heap) (a b : Nat) (c : Cell) (hne : b ≠ a) : (h.set a c).get? b = h.get? b := by
  rw [get?_set]; simp [hne]

theorem get?_set_eq (h : Heap) (a : Nat) (c c0 : Cell) (hg : h.get? a = some c0) : (h.set a c).get? a = some c := by
  rw [get?_set]; simp [hg]

theorem get?_erase_ne (h : Heap) (a b : Nat) (hne : b ≠ a) : (h.erase a).get? b = h.get? b := by
  unfold Heap.get? Heap.erase
  simp only
  rw [List.find?_filter]
  congr 2
  funext p
  by_cases hpb : p.1 = b
  · have : ¬ (p.1 = a) := fun e => hne (hpb ▸ e)
    simp [hpb, hne]
  · simp [hpb]

theorem set_set (h : Heap) (a : Nat) (c c' : Cell) : (h.set a c).set a c' = h.set a c' := by
  unfold Heap.set
  simp only [List.map_map]
  congr 1
  apply List.map_congr_left
  intro p _
  by_cases hpa : p.1 = a <;> simp [hpa]

theorem set_comm (h : Heap) (a b : Nat) (c c' : Cell) (hne : a ≠ b) : (h.set a c).set b c' = (h.set b c').set a c := by
  unfold Heap.set
  simp only [List.map_map]
  congr 1
  apply List.map_congr_left
  intro p _
  have hne' : ¬ (b = a) := fun e => hne e.symm
  by_cases hpa : p.1 = a <;> by_cases hpb : p.1 = b <;> simp [hpa, hpb, hne, hne']

theorem erase_set_ne (h : Heap) (a b : Nat) (c : Cell) (hne : a ≠ b) : (h.set a c).erase b = (h.erase b).set a c := by
  unfold Heap.set Heap.erase
  simp only [List.filter_map]
  congr 1
  congr 1
  apply List.filter_congr
  intro p _
  by_cases hpa : p.1 = a <;> simp [hpa, hne]

theorem set_markDangling (h : Heap) (a : Nat) (c : Cell) : (h.set a c).markDangling = h.markDangling.set a c := rfl

theorem get?_markDangling (h : Heap) (a : Nat) : h.markDangling.get? a = h.get? a := rfl

theorem setObj_eq (h : Heap) (a : Nat) (o : Obj) (c : Cell) (hg : h.get? a = some c) :
    h.setObj a o = h.set a { c with obj := o } := by
  unfold Heap.setObj; rw [hg]

theorem obj?_eq {h : Heap} {a : Nat} {o : Obj} (ho : h.obj? a = some o) : ∃ c, h.get? a = some c ∧ c.obj = o := by
  unfold Heap.obj? at ho
  cases hg : h.get? a with
  | none => rw [hg] at ho; cases ho
  | some c => rw [hg] at ho; exact ⟨c, rfl, by simpa using ho⟩

theorem not_key_erase (h : Heap) (a : Nat) : a ∉ (h.erase a).keys := by
  unfold Heap.keys Heap.erase
  simp

theorem mem_get? {h : Heap} (hn : h.keys.Nodup) {a : Nat} {c : Cell} (hm : (a, c) ∈ h.cells) : h.get? a = some c := by
  obtain ⟨c', hg⟩ := Heap.mem_key_get? (h := h) (a := a) (List.mem_map.mpr ⟨(a, c), hm, rfl⟩)
  have := mem_cells_unique hn (Heap.get?_some_mem hg) hm rfl
  rw [hg]; congr 1; exact (Prod.mk.inj this).2

/-! ### unfolding `release` one step -/

theorem release_nil (h : Heap) : h.release [] = h := by rw [Heap.release]

theorem release_scalar (h : Heap) (v : Val) (ws : List Val) (hv : v.addr? = none) : h.release (v :: ws) = h.release ws := by
  rw [Heap.release]; simp [hv]

theorem release_dead (h : Heap) (v : Val) (ws : List Val) (a : Nat) (hv : v.addr? = some a) (hg : h.get? a = none) :
    h.release (v :: ws) = h.markDangling.release ws := by
  rw [Heap.release]; simp only [hv]; split
  · rfl
  · rename_i c h1; rw [hg] at h1; cases h1

theorem release_free (h : Heap) (v : Val) (ws : List Val) (a : Nat) (c : Cell) (hv : v.addr? = some a) (hg : h.get? a = some c)
    (hr : c.rc ≤ 1) : h.release (v :: ws) = (h.erase a).release (c.obj.kids ++ ws) := by
  rw [Heap.release]; simp only [hv]; split
  · rename_i h1; rw [hg] at h1; cases h1
  · rename_i c' h1; rw [hg] at h1; cases h1; simp [hr]

theorem release_dec (h : Heap) (v : Val) (ws : List Val) (a : Nat) (c : Cell) (hv : v.addr? = some a) (hg : h.get? a = some c)
    (hr : ¬ c.rc ≤ 1) : h.release (v :: ws) = (h.set a { c with rc := c.rc - 1 }).release ws := by
  rw [Heap.release]; simp only [hv]; split
  · rename_i h1; rw [hg] at h1; cases h1
  · rename_i c' h1; rw [hg] at h1; cases h1; simp [hr]

/-- objects that survive a release are unchanged (only counts change) -/
theorem release_cells (h : Heap) (ws : List Val) :
    ∀ p ∈ (h.release ws).cells, ∃ c, (p.1, c) ∈ h.cells ∧ c.obj = p.2.obj := by
  fun_induction Heap.release h ws with
  | case1 h => intro p hp; exact ⟨p.2, hp, rfl⟩
  | case2 h v ws hv ih => exact ih
  | case3 h v ws a hv hg ih => exact ih
  | case4 h v ws a hv c hg hrc ih =>
    intro p hp
    obtain ⟨c', hm, ho⟩ := ih p hp
    exact ⟨c', (List.mem_filter.mp hm).1, ho⟩
  | case5 h v ws a hv c hg hrc ih =>
    intro p hp
    obtain ⟨c', hm, ho⟩ := ih p hp
    simp only [Heap.set, List.mem_map] at hm
    obtain ⟨q, hq, he⟩ := hm
    by_cases hqa : q.1 == a
    · simp only [hqa, if_true] at he
      have e1 : a = p.1 := (Prod.mk.inj he).1
      have e2 : { c with rc := c.rc - 1 } = c' := (Prod.mk.inj he).2
      refine ⟨c, e1 ▸ Heap.get?_some_mem hg, ?_⟩
      rw [← ho, ← e2]
    · simp only [hqa, Bool.false_eq_true, if_false] at he
      exact ⟨c', he ▸ hq, ho⟩

/-- replacing the contents of an object that survives commutes with a release: `vm_release` only looks
    at the children of objects it frees -/
theorem release_setObj (h : Heap) (ws : List Val) (a : Nat) (o : Obj) :
    a ∈ (h.release ws).keys → (h.setObj a o).release ws = (h.release ws).setObj a o := by
  fun_induction Heap.release h ws with
  | case1 h => intro _; rw [release_nil]
  | case2 h v ws hv ih => intro hk; rw [release_scalar _ _ _ hv]; exact ih hk
  | case3 h v ws b hv hg ih =>
    intro hk
    have hg' : (h.setObj a o).get? b = none := by
      unfold Heap.setObj
      cases hga : h.get? a with
      | none => exact hg
      | some c =>
        simp only
        by_cases hba : b = a
        · subst hba; rw [hga] at hg; cases hg
        · rw [get?_set_ne _ _ _ _ hba]; exact hg
    rw [release_dead _ _ _ _ hv hg']
    have : (h.setObj a o).markDangling = h.markDangling.setObj a o := by
      unfold Heap.setObj
      rw [get?_markDangling]
      cases h.get? a <;> rfl
    rw [this]; exact ih hk
  | case4 h v ws b hv c hg hrc ih =>
    intro hk
    by_cases hba : b = a
    · subst hba
      exact absurd (release_keys_subset _ _ _ hk) (not_key_erase h b)
    · have hg' : (h.setObj a o).get? b = some c := by
        unfold Heap.setObj
        cases hga : h.get? a with
        | none => exact hg
        | some c0 => simp only; rw [get?_set_ne _ _ _ _ hba]; exact hg
      rw [release_free _ _ _ _ _ hv hg' hrc]
      have : (h.setObj a o).erase b = (h.erase b).setObj a o := by
        unfold Heap.setObj
        rw [get?_erase_ne _ _ _ (fun e => hba e.symm)]
        cases h.get? a with
        | none => rfl
        | some c0 => simp only; exact erase_set_ne _ _ _ _ (fun e => hba e.symm)
      rw [this]; exact ih hk
  | case5 h v ws b hv c hg hrc ih =>
    intro hk
    by_cases hba : b = a
    · subst hba
      have hs : h.setObj b o = h.set b { c with obj := o } := setObj_eq _ _ _ _ hg
      have hg' : (h.setObj b o).get? b = some { c with obj := o } := by rw [hs]; exact get?_set_eq _ _ _ _ hg
      rw [release_dec _ _ _ _ _ hv hg' hrc]
      have : (h.setObj b o).set b { rc := c.rc - 1, obj := o } = (h.set b { c with rc := c.rc - 1 }).setObj b o := by
        rw [hs, set_set]
        rw [setObj_eq _ _ _ _ (get?_set_eq _ _ _ _ hg), set_set]
      simp only at this ⊢
      rw [this]; exact ih hk
    · have hg' : (h.setObj a o).get? b = some c := by
        unfold Heap.setObj
        cases hga : h.get? a with
        | none => exact hg
        | some c0 => simp only; rw [get?_set_ne _ _ _ _ hba]; exact hg
      rw [release_dec _ _ _ _ _ hv hg' hrc]
      have : (h.setObj a o).set b { c with rc := c.rc - 1 } = (h.set b { c with rc := c.rc - 1 }).setObj a o := by
        unfold Heap.setObj
        rw [get?_set_ne _ _ _ _ (fun e => hba e.symm)]
        cases h.get? a with
        | none => rfl
        | some c0 => simp only; exact set_comm _ _ _ _ _ (fun e => hba e.symm)
      rw [this]; exact ih hk

/-! ### the primitive moves -/

/-- kinds survive every heap change that keeps the kind of the object at each address -/
theorem KindOk.transfer {h h' : Heap} {v : Val}
    (hcells : ∀ p ∈ h'.cells, ∃ c, (p.1, c) ∈ h.cells ∧ c.obj.kind = p.2.obj.kind) (hk : KindOk h v) : KindOk h' v := by
  intro a c' ha hm
  obtain ⟨c, hmc, hkind⟩ := hcells (a, c') hm
  rw [hk a c ha hmc, hkind]

theorem Kinded.transfer {h h' : Heap} {vals vals' : List Val}
    (hcells : ∀ p ∈ h'.cells, ∃ c, (p.1, c) ∈ h.cells ∧ c.obj = p.2.obj)
    (hk : Kinded vals h) (hv : ∀ v ∈ vals', v.addr? = none ∨ v ∈ vals) : Kinded vals' h' := by
  have hcells' : ∀ p ∈ h'.cells, ∃ c, (p.1, c) ∈ h.cells ∧ c.obj.kind = p.2.obj.kind := by
    intro p hp; obtain ⟨c, h1, h2⟩ := hcells p hp; exact ⟨c, h1, by rw [h2]⟩
  constructor
  · intro v hvm
    rcases hv v hvm with h1 | h1
    · exact KindOk_scalar _ _ h1
    · exact (hk.1 v h1).transfer hcells'
  · intro p hp w hw
    obtain ⟨c, h1, h2⟩ := hcells p hp
    exact (hk.2 (p.1, c) h1 w (by rw [h2]; exact hw)).transfer hcells'

/-- `vm_release` of a value the handler holds -/
theorem HX.release {roots : List Val} {h : Heap} {v : Val} {extra : List Val} (hx : HX roots h (v :: extra)) :
    HX roots (h.release1 v) extra := by
  obtain ⟨r1, r2, r3, r4, r5⟩ := release_inv roots h [v] extra hx.nodup (by simpa using hx.rc) (by simpa using hx.closed)
  unfold Heap.release1
  refine ⟨r3, ?_, by rw [r4]; exact hx.clean, r1, r2, ?_⟩
  · intro k hk; rw [r5]; exact hx.fresh k (release_keys_subset _ _ k hk)
  · apply Kinded.transfer (release_cells h [v]) hx.kinds
    intro w hw
    right
    rcases List.mem_append.mp hw with h1 | h1
    · exact List.mem_append.mpr (Or.inl h1)
    · exact List.mem_append.mpr (Or.inr (List.mem_cons_of_mem _ h1))

/-- releasing a work list at once (`unwindTo`) -/
theorem HX.releaseList {roots : List Val} {h : Heap} {ws : List Val} {extra : List Val} (hx : HX roots h (ws ++ extra)) :
    HX roots (h.release ws) extra := by
  obtain ⟨r1, r2, r3, r4, r5⟩ := release_inv roots h ws extra hx.nodup hx.rc hx.closed
  refine ⟨r3, ?_, by rw [r4]; exact hx.clean, r1, r2, ?_⟩
  · intro k hk; rw [r5]; exact hx.fresh k (release_keys_subset _ _ k hk)
  · apply Kinded.transfer (release_cells h ws) hx.kinds
    intro w hw
    right
    rcases List.mem_append.mp hw with h1 | h1
    · exact List.mem_append.mpr (Or.inl h1)
    · exact List.mem_append.mpr (Or.inr (List.mem_append.mpr (Or.inr h1)))

theorem retain_cells (h : Heap) (v : Val) : ∀ p ∈ (h.retain v).cells, ∃ c, (p.1, c) ∈ h.cells ∧ c.obj = p.2.obj := by
  intro p hp
  unfold Heap.retain at hp
  cases hv : v.addr? with
  | none => rw [hv] at hp; exact ⟨p.2, hp, rfl⟩
  | some a =>
    rw [hv] at hp
    simp only at hp
    cases hg : h.get? a with
    | none => rw [hg] at hp; exact ⟨p.2, hp, rfl⟩
    | some c =>
      rw [hg] at hp
      simp only [Heap.set, List.mem_map] at hp
      obtain ⟨q, hq, he⟩ := hp
      by_cases hqa : q.1 == a
      · simp only [hqa, if_true] at he
        refine ⟨c, ?_, ?_⟩
        · rw [← he]; exact Heap.get?_some_mem hg
        · rw [← he]
      · simp only [hqa, Bool.false_eq_true, if_false] at he
        exact ⟨q.2, he ▸ hq, by rw [he]⟩

/-- `vm_retain` of a live value of the right kind: the handler holds one more counted reference -/
theorem HX.retain {roots : List Val} {h : Heap} {extra : List Val} (hx : HX roots h extra) (v : Val)
    (hlive : ∀ a, v.addr? = some a → a ∈ h.keys) (hkind : KindOk h v) : HX roots (h.retain v) (v :: extra) := by
  obtain ⟨r1, r2, r3, r4, r5⟩ := retain_inv roots h v extra hx.nodup hx.rc hx.closed hlive
  have hkeys : (h.retain v).keys = h.keys := by
    unfold Heap.retain
    cases v.addr? with
    | none => rfl
    | some a =>
      simp only
      cases h.get? a with
      | none => rfl
      | some cell => simp only; exact keys_set _ _ _
  refine ⟨r3, ?_, by rw [r4]; exact hx.clean, r1, r2, ?_⟩
  · intro k hk; rw [r5]; rw [hkeys] at hk; exact hx.fresh k hk
  · have hk2 : Kinded (v :: (roots ++ extra)) h := ⟨by
      intro w hw
      rcases List.mem_cons.mp hw with rfl | h1
      · exact hkind
      · exact hx.kinds.1 w h1, hx.kinds.2⟩
    apply Kinded.transfer (retain_cells h v) hk2
    intro w hw
    right
    rcases List.mem_append.mp hw with h1 | h1
    · exact List.mem_cons_of_mem _ (List.mem_append.mpr (Or.inl h1))
    · rcases List.mem_cons.mp h1 with rfl | h2
      · exact List.mem_cons_self
      · exact List.mem_cons_of_mem _ (List.mem_append.mpr (Or.inr h2))

/-- retain a value the roots or the handler already hold -/
theorem HX.retain_held {roots : List Val} {h : Heap} {extra : List Val} (hx : HX roots h extra) (v : Val)
    (hm : v.addr? = none ∨ v ∈ roots ++ extra) : HX roots (h.retain v) (v :: extra) := by
  rcases hm with hs | hm
  · exact hx.retain v (by intro a ha; rw [hs] at ha; cases ha) (KindOk_scalar _ _ hs)
  · exact hx.retain v (fun a ha => hx.live hm ha) (hx.kinds.1 v hm)

/-- retain a child of a live object -/
theorem HX.retain_kid {roots : List Val} {h : Heap} {extra : List Val} (hx : HX roots h extra) (v : Val) (p : Nat × Cell)
    (hp : p ∈ h.cells) (hm : v ∈ p.2.obj.kids) : HX roots (h.retain v) (v :: extra) :=
  hx.retain v (fun _ ha => hx.live_kid hp hm ha) (hx.kinds.2 p hp v hm)

theorem KindOk.alloc {h : Heap} {v : Val} (o : Obj) (hk : KindOk h v) (hlive : ∀ a, v.addr? = some a → a ∈ h.keys)
    (hfresh : ∀ k ∈ h.keys, k < h.next) : KindOk (h.alloc o).1 v := by
  intro a c ha hm
  unfold Heap.alloc at hm
  simp only [List.mem_append, List.mem_singleton] at hm
  rcases hm with hm | hm
  · exact hk a c ha hm
  · have := hfresh a (hlive a ha)
    have e : a = h.next := (Prod.mk.inj hm).1
    omega

/-- allocation: the children move from the handler into the new object, the handler gets the
    only reference to it -/
theorem HX.alloc {roots : List Val} {h : Heap} {extra : List Val} (o : Obj) (mk : Nat → Val)
    (hmk : ∀ a, (mk a).addr? = some a) (hmkk : ∀ a, (mk a).okind = some o.kind)
    (hx : HX roots h (o.kids ++ extra)) : HX roots (h.alloc o).1 (mk (h.alloc o).2 :: extra) := by
  obtain ⟨r1, r2, r3, r4, r5⟩ := alloc_inv roots h o extra mk hmk hx.nodup hx.fresh hx.rc hx.closed
  refine ⟨r3, r4, by rw [r5]; exact hx.clean, r1, r2, ?_⟩
  have hnotkey : h.next ∉ h.keys := fun hk => Nat.lt_irrefl _ (hx.fresh _ hk)
  constructor
  · intro w hw
    have hcase : w = mk h.next ∨ w ∈ roots ++ (o.kids ++ extra) := by
      rcases List.mem_append.mp hw with h1 | h1
      · exact Or.inr (List.mem_append.mpr (Or.inl h1))
      · rcases List.mem_cons.mp h1 with h2 | h2
        · exact Or.inl h2
        · exact Or.inr (List.mem_append.mpr (Or.inr (List.mem_append.mpr (Or.inr h2))))
    rcases hcase with rfl | h1
    · intro a c ha hm
      rw [hmk] at ha
      have e : h.next = a := by simpa using ha
      unfold Heap.alloc at hm
      simp only [List.mem_append, List.mem_singleton] at hm
      rcases hm with hm | hm
      · exact absurd (List.mem_map.mpr ⟨(a, c), hm, rfl⟩) (e ▸ hnotkey)
      · rw [hmkk, (Prod.mk.inj hm).2]
    · exact (hx.kinds.1 w h1).alloc o (fun a ha => hx.live h1 ha) hx.fresh
  · intro p hp w hw
    unfold Heap.alloc at hp
    simp only [List.mem_append, List.mem_singleton] at hp
    rcases hp with hp | rfl
    · exact (hx.kinds.2 p hp w hw).alloc o (fun a ha => hx.live_kid hp hw ha) hx.fresh
    · have hm : w ∈ roots ++ (o.kids ++ extra) := List.mem_append.mpr (Or.inr (List.mem_append.mpr (Or.inl hw)))
      exact (hx.kinds.1 w hm).alloc o (fun a ha => hx.live hm ha) hx.fresh

/-- `vm_string_new` (interned by content): the handler holds the resulting string -/
theorem HX.strNew {roots : List Val} {h : Heap} {extra : List Val} (b : Bytes) (hx : HX roots h extra) :
    HX roots (h.strNew b).1 ((h.strNew b).2 :: extra) := by
  unfold Heap.strNew
  cases hf : h.cells.find? (fun p => match p.2.obj with | .str b' => b' == b | _ => false) with
  | none =>
    simp only
    exact HX.alloc (.str b) .str (fun _ => rfl) (fun _ => rfl) (by simpa [Obj.kids] using hx)
  | some p =>
    obtain ⟨a, c⟩ := p
    simp only
    have hm := List.mem_of_find?_eq_some hf
    have hp := List.find?_some hf
    have hg : h.get? a = some c := mem_get? hx.nodup hm
    have hkind : c.obj.kind = 0 := by
      simp only at hp
      cases hco : c.obj <;> simp [hco] at hp <;> rfl
    have hr : h.retain (.str a) = h.set a { c with rc := c.rc + 1 } := by
      unfold Heap.retain; simp [Val.addr?, hg]
    rw [← hr]
    apply hx.retain
    · intro a' ha'
      have : a = a' := by simpa [Val.addr?] using ha'
      subst this
      exact List.mem_map.mpr ⟨(a, c), hm, rfl⟩
    · intro a' c' ha' hm'
      have : a = a' := by simpa [Val.addr?] using ha'
      subst this
      have := mem_cells_unique hx.nodup hm hm' rfl
      rw [← (Prod.mk.inj this).2, hkind]; rfl

theorem count_heapRefs_set (h : Heap) (a : Nat) (c c' : Cell) (x : Nat) (hn : h.keys.Nodup) (hm : (a, c) ∈ h.cells) :
    (heapRefs (h.set a c')).count x + (refsOf c.obj.kids).count x = (heapRefs h).count x + (refsOf c'.obj.kids).count x := by
  have hg := mem_get? hn hm
  have hm' : (a, c') ∈ (h.set a c').cells := Heap.get?_some_mem (get?_set_eq h a c' c hg)
  have hn' : (h.set a c').keys.Nodup := by rw [keys_set]; exact hn
  have e1 := count_heapRefs_erase h a c x hn hm
  have e2 := count_heapRefs_erase (h.set a c') a c' x hn' hm'
  have e3 : (h.set a c').erase a = h.erase a := by
    unfold Heap.set Heap.erase
    simp only [List.filter_map]
    congr 1
    have : ((fun p : Nat × Cell => p.1 != a) ∘ fun p : Nat × Cell => if p.1 == a then (a, c') else p) = fun p => p.1 != a := by
      funext p
      simp only [Function.comp]
      by_cases hpa : p.1 = a <;> simp [hpa]
    rw [this]
    conv => rhs; rw [← List.map_id (List.filter (fun p : Nat × Cell => p.1 != a) h.cells)]
    apply List.map_congr_left
    intro p hp
    have := (List.mem_filter.mp hp).2
    simp only [bne_iff_ne, ne_eq] at this
    simp [this]
  rw [e3] at e2
  omega

/-- replace the children of a live object (`elements[i] = v`, `array_push`, ...): references may move
    between the object and the handler -/
theorem HX.setKids {roots : List Val} {h : Heap} {extra : List Val} (a : Nat) (c : Cell) (o' : Obj) (inn out : List Val)
    (hx : HX roots h (inn ++ extra)) (hg : h.get? a = some c) (hkind : o'.kind = c.obj.kind)
    (hle : LeVals (o'.kids ++ out) (c.obj.kids ++ inn)) : HX roots (h.setObj a o') (out ++ extra) := by
  rw [setObj_eq h a o' c hg]
  have hm := Heap.get?_some_mem hg
  have hkeys := keys_set h a { c with obj := o' }
  have hcnt : ∀ x, (refsOf roots ++ heapRefs (h.set a { c with obj := o' }) ++ refsOf (out ++ extra)).count x
      ≤ (refsOf roots ++ heapRefs h ++ refsOf (inn ++ extra)).count x := by
    intro x
    have e := count_heapRefs_set h a c { c with obj := o' } x hx.nodup hm
    have l := hle.refs x
    simp only [refsOf_append, List.count_append] at l e ⊢
    omega
  have hcells : ∀ p ∈ (h.set a { c with obj := o' }).cells, ∃ c0, (p.1, c0) ∈ h.cells ∧ c0.obj.kind = p.2.obj.kind ∧ c0.rc = p.2.rc := by
    intro p hp
    simp only [Heap.set, List.mem_map] at hp
    obtain ⟨q, hq, he⟩ := hp
    by_cases hqa : q.1 == a
    · simp only [hqa, if_true] at he
      rw [← he]; exact ⟨c, hm, hkind.symm, rfl⟩
    · simp only [hqa, Bool.false_eq_true, if_false] at he
      rw [← he]; exact ⟨q.2, hq, rfl, rfl⟩
  have hcells' : ∀ p ∈ (h.set a { c with obj := o' }).cells, ∃ c0, (p.1, c0) ∈ h.cells ∧ c0.obj.kind = p.2.obj.kind := by
    intro p hp; obtain ⟨c0, h1, h2, _⟩ := hcells p hp; exact ⟨c0, h1, h2⟩
  refine ⟨by rw [hkeys]; exact hx.nodup, ?_, hx.clean, ?_, ?_, ?_⟩
  · intro k hk; rw [hkeys] at hk; exact hx.fresh k hk
  · intro p hp
    obtain ⟨c0, h1, _, h3⟩ := hcells p hp
    have := hx.rc (p.1, c0) h1
    have := hcnt p.1
    simp only at *
    omega
  · intro x hxm
    rw [hkeys]
    apply hx.closed x
    have := hcnt x
    have hp : 0 < (refsOf roots ++ heapRefs (h.set a { c with obj := o' }) ++ refsOf (out ++ extra)).count x := List.count_pos_iff.mpr hxm
    exact List.count_pos_iff.mp (by omega)
  · have hsrc : ∀ w, w.addr? ≠ none → w ∈ o'.kids ++ out → KindOk h w := by
      intro w hw hmem
      have := hle.mem w hw hmem
      rcases List.mem_append.mp this with h1 | h1
      · exact hx.kinds.2 (a, c) hm w h1
      · exact hx.kinds.1 w (List.mem_append.mpr (Or.inr (List.mem_append.mpr (Or.inl h1))))
    constructor
    · intro w hw
      by_cases hs : w.addr? = none
      · exact KindOk_scalar _ _ hs
      · apply KindOk.transfer hcells'
        rcases List.mem_append.mp hw with h1 | h1
        · exact hx.kinds.1 w (List.mem_append.mpr (Or.inl h1))
        · rcases List.mem_append.mp h1 with h2 | h2
          · exact hsrc w hs (List.mem_append.mpr (Or.inr h2))
          · exact hx.kinds.1 w (List.mem_append.mpr (Or.inr (List.mem_append.mpr (Or.inr h2))))
    · intro p hp w hw
      by_cases hs : w.addr? = none
      · exact KindOk_scalar _ _ hs
      · apply KindOk.transfer hcells'
        simp only [Heap.set, List.mem_map] at hp
        obtain ⟨q, hq, he⟩ := hp
        by_cases hqa : q.1 == a
        · simp only [hqa, if_true] at he
          rw [← he] at hw
          exact hsrc w hs (List.mem_append.mpr (Or.inl hw))
        · simp only [hqa, Bool.false_eq_true, if_false] at he
          rw [← he] at hw
          exact hx.kinds.2 q hq w hw

/-! ### replacing a child that is released first (`vm_release(old); slot = v`) -/

theorem obj?_setObj (h : Heap) (a : Nat) (o' : Obj) (hk : a ∈ h.keys) : (h.setObj a o').obj? a = some o' := by
  obtain ⟨c, hg⟩ := Heap.mem_key_get? hk
  rw [setObj_eq h a o' c hg]
  unfold Heap.obj?
  rw [get?_set_eq h a _ c hg]; rfl

theorem setObj_setObj (h : Heap) (a : Nat) (o1 o2 : Obj) (hk : a ∈ h.keys) : (h.setObj a o1).setObj a o2 = h.setObj a o2 := by
  obtain ⟨c, hg⟩ := Heap.mem_key_get? hk
  rw [setObj_eq h a o1 c hg, setObj_eq h a o2 c hg]
  rw [setObj_eq _ a o2 _ (get?_set_eq h a _ c hg), set_set]

theorem setObj_self (h : Heap) (a : Nat) (o : Obj) (hn : h.keys.Nodup) (ho : h.obj? a = some o) : h.setObj a o = h := by
  obtain ⟨c, hg, he⟩ := obj?_eq ho
  rw [setObj_eq h a o c hg]
  have hm := Heap.get?_some_mem hg
  unfold Heap.set
  have : (h.cells.map fun p => if p.1 == a then (a, { c with obj := o }) else p) = h.cells := by
    conv => rhs; rw [← List.map_id h.cells]
    apply List.map_congr_left
    intro p hp
    by_cases hpa : p.1 = a
    · have := mem_cells_unique hn hp hm hpa
      subst this
      simp [← he]
    · simp [hpa]
  rw [this]

theorem setObj_keys (h : Heap) (a : Nat) (o : Obj) : (h.setObj a o).keys = h.keys := by
  unfold Heap.setObj
  cases h.get? a with
  | none => rfl
  | some c => exact keys_set _ _ _

theorem count_set_void (l : List Val) (i : Nat) (hi : i < l.length) (w : Val) (hw : w.addr? ≠ none) :
    (l.set i .void).count w + [l.getD i .void].count w = l.count w := by
  induction l generalizing i with
  | nil => simp at hi
  | cons a r ih =>
    have hv : ¬ (Val.void = w) := by intro e; subst e; exact hw rfl
    cases i with
    | zero => simp [List.count_cons, hv]
    | succ j =>
      have := ih j (by simpa using hi)
      simp only [List.set_cons_succ, List.getD_cons_succ, List.count_cons, List.count_nil] at this ⊢
      omega

/-- `vm_release(kids[i]); kids := K'` on a live object `a` that somebody still holds: although the child is
    released while the object still points at it, the object itself cannot be freed by that release, so the
    result is the same as taking the child out first -/
theorem HX.replaceKid {roots : List Val} {h : Heap} {extra : List Val} (a : Nat) (mkO : List Val → Obj)
    (hkids : ∀ l, (mkO l).kids = l) (hkind : ∀ l l', (mkO l).kind = (mkO l').kind)
    (K : List Val) (i : Nat) (hi : i < K.length) (inn K' : List Val)
    (hx : HX roots h (inn ++ extra)) (ho : h.obj? a = some (mkO K))
    (hheld : ∃ v ∈ roots ++ extra, v.addr? = some a)
    (hle : LeVals K' ((K.set i .void) ++ inn)) :
    (h.release1 (K.getD i .void)).obj? a = some (mkO K) ∧
      HX roots ((h.release1 (K.getD i .void)).setObj a (mkO K')) extra := by
  obtain ⟨cell, hg, he⟩ := obj?_eq ho
  have hka : a ∈ h.keys := List.mem_map.mpr ⟨(a, cell), Heap.get?_some_mem hg, rfl⟩
  -- the heap with the child taken out
  have h0 : HX roots (h.setObj a (mkO (K.set i .void))) ([K.getD i .void] ++ (inn ++ extra)) := by
    apply HX.setKids a cell (mkO (K.set i .void)) [] [K.getD i .void] (by simpa using hx) hg (by rw [he]; exact hkind _ _)
    intro w hw
    have := count_set_void K i hi w hw
    rw [he, hkids, hkids]
    simp only [List.count_append, List.count_nil]
    omega
  have h1 : HX roots ((h.setObj a (mkO (K.set i .void))).release1 (K.getD i .void)) (inn ++ extra) := HX.release h0
  -- `a` survives that release
  obtain ⟨v, hvm, hva⟩ := hheld
  have hka1 : a ∈ ((h.setObj a (mkO (K.set i .void))).release1 (K.getD i .void)).keys := by
    apply HX.live h1 (v := v) _ hva
    rcases List.mem_append.mp hvm with h2 | h2
    · exact List.mem_append.mpr (Or.inl h2)
    · exact List.mem_append.mpr (Or.inr (List.mem_append.mpr (Or.inr h2)))
  have hback : h = (h.setObj a (mkO (K.set i .void))).setObj a (mkO K) := by
    rw [setObj_setObj _ _ _ _ hka, setObj_self h a _ hx.nodup ho]
  have hrel : h.release1 (K.getD i .void) = ((h.setObj a (mkO (K.set i .void))).release1 (K.getD i .void)).setObj a (mkO K) := by
    conv => lhs; rw [hback]
    exact release_setObj _ _ _ _ hka1
  constructor
  · rw [hrel]; exact obj?_setObj _ _ _ hka1
  · rw [hrel, setObj_setObj _ _ _ _ hka1]
    -- the object at `a` in the released heap is the one with the hole
    obtain ⟨c1, hg1⟩ := Heap.mem_key_get? hka1
    obtain ⟨c0, hm0, ho0⟩ := release_cells _ _ _ (Heap.get?_some_mem hg1)
    have hg0 : (h.setObj a (mkO (K.set i .void))).get? a = some c0 := mem_get? h0.nodup hm0
    have : (h.setObj a (mkO (K.set i .void))).obj? a = some (mkO (K.set i .void)) := obj?_setObj _ _ _ hka
    have hc0 : c0.obj = mkO (K.set i .void) := by
      unfold Heap.obj? at this; rw [hg0] at this; simpa using this
    have hfin := HX.setKids a c1 (mkO K') inn [] h1 hg1 (by rw [← ho0, hc0]; exact hkind _ _) (by
      rw [← ho0, hc0, hkids, hkids]; simpa using hle)
    simpa using hfin

/-! ### allocation commutes with retaining live values (`vm_array_slice` fills the new array first) -/

theorem alloc_retain (h : Heap) (o : Obj) (v : Val) (hlive : ∀ a, v.addr? = some a → a ∈ h.keys)
    (hfresh : ∀ k ∈ h.keys, k < h.next) :
    (h.alloc o).1.retain v = ((h.retain v).alloc o).1 ∧ ((h.retain v).alloc o).2 = (h.alloc o).2 := by
  unfold Heap.retain
  cases hv : v.addr? with
  | none => exact ⟨rfl, rfl⟩
  | some a =>
    simp only
    obtain ⟨c, hg⟩ := Heap.mem_key_get? (hlive a hv)
    have hne : a ≠ h.next := by have := hfresh a (hlive a hv); omega
    have hg' : (h.alloc o).1.get? a = some c := by
      unfold Heap.get? Heap.alloc at *
      simp only [List.find?_append]
      cases hf : List.find? (fun x : Nat × Cell => x.1 == a) h.cells with
      | none => rw [hf] at hg; cases hg
      | some p => rw [hf] at hg; simpa using hg
    rw [hg, hg']
    simp only
    constructor
    · unfold Heap.set Heap.alloc
      simp [List.map_append, Ne.symm hne]
    · rfl

theorem obj?_retain (h : Heap) (v : Val) (a : Nat) : (h.retain v).obj? a = h.obj? a := by
  unfold Heap.retain Heap.obj?
  cases hv : v.addr? with
  | none => rfl
  | some b =>
    simp only
    cases hg : h.get? b with
    | none => rfl
    | some c =>
      simp only
      rw [get?_set]
      by_cases hab : a = b
      · subst hab; simp [hg]
      · simp [hab]

theorem retain_keys (h : Heap) (v : Val) : (h.retain v).keys = h.keys := by
  unfold Heap.retain
  cases v.addr? with
  | none => rfl
  | some a =>
    simp only
    cases h.get? a with
    | none => rfl
    | some cell => simp only; exact keys_set _ _ _

theorem retain_next (h : Heap) (v : Val) : (h.retain v).next = h.next := by
  unfold Heap.retain
  cases v.addr? with
  | none => rfl
  | some a =>
    simp only
    cases h.get? a with
    | none => rfl
    | some cell => rfl

/-- retain several children of one live object -/
theorem HX.retainKids {roots : List Val} (a : Nat) (o : Obj) (part : List Val) (hpart : ∀ v ∈ part, v ∈ o.kids) :
    ∀ {h : Heap} {extra : List Val}, HX roots h extra → h.obj? a = some o →
      HX roots (part.foldl Heap.retain h) (part.reverse ++ extra) := by
  induction part with
  | nil => intro h extra hx _; simpa using hx
  | cons v r ih =>
    intro h extra hx ho
    obtain ⟨cell, hg, he⟩ := obj?_eq ho
    have h1 := hx.retain_kid v (a, cell) (Heap.get?_some_mem hg) (by rw [he]; exact hpart v List.mem_cons_self)
    have h2 := ih (fun w hw => hpart w (List.mem_cons_of_mem _ hw)) h1 (by rw [obj?_retain]; exact ho)
    simpa [List.foldl_cons, List.reverse_cons, List.append_assoc] using h2

theorem foldl_retain_alloc (o : Obj) (part : List Val) :
    ∀ (h : Heap), (∀ v ∈ part, ∀ a, v.addr? = some a → a ∈ h.keys) → (∀ k ∈ h.keys, k < h.next) →
      part.foldl Heap.retain (h.alloc o).1 = ((part.foldl Heap.retain h).alloc o).1 ∧
      ((part.foldl Heap.retain h).alloc o).2 = (h.alloc o).2 := by
  induction part with
  | nil => intro h _ _; exact ⟨rfl, rfl⟩
  | cons v r ih =>
    intro h hlive hfresh
    obtain ⟨e1, e2⟩ := alloc_retain h o v (hlive v List.mem_cons_self) hfresh
    have := ih (h.retain v) (by
      intro w hw a ha; rw [retain_keys]; exact hlive w (List.mem_cons_of_mem _ hw) a ha) (by
      intro k hk; rw [retain_keys] at hk; rw [retain_next]; exact hfresh k hk)
    simp only [List.foldl_cons]
    rw [e1]
    exact ⟨this.1, by rw [this.2, e2]⟩

theorem count_eraseIdx_val (l : List Val) (i : Nat) (d : Val) (hi : i < l.length) (w : Val) :
    (l.eraseIdx i).count w + [l.getD i d].count w = l.count w := by
  induction l generalizing i with
  | nil => simp at hi
  | cons a r ih =>
    cases i with
    | zero => simp only [List.eraseIdx_cons_zero, List.getD_cons_zero, List.count_cons, List.count_nil]; omega
    | succ j =>
      have := ih j (by simpa using hi)
      simp only [List.eraseIdx_cons_succ, List.getD_cons_succ, List.count_cons, List.count_nil] at this ⊢
      omega

end NanoVerif
