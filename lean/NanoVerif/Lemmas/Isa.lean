import NanoVerif.Model.Isa
namespace NanoVerif

def operandsSize (ts : List OperandType) : Nat := (ts.map Gen.operandSize).sum

@[simp] theorem operandsSize_nil : operandsSize [] = 0 := rfl
@[simp] theorem operandsSize_cons (t : OperandType) (ts : List OperandType) :
    operandsSize (t :: ts) = Gen.operandSize t + operandsSize ts := by
  simp [operandsSize]

theorem encodeOperands_length {ts : List OperandType} {vs : List Nat} {ob : Bytes}
    (h : encodeOperands ts vs = some ob) : ob.length = operandsSize ts ∧ vs.length = ts.length := by
  induction ts generalizing vs ob with
  | nil =>
    cases vs with
    | nil => simp [encodeOperands] at h; subst h; simp
    | cons v vs => simp [encodeOperands] at h
  | cons t ts ih =>
    cases vs with
    | nil => simp [encodeOperands] at h
    | cons v vs =>
      simp only [encodeOperands, Option.map_eq_some_iff] at h
      obtain ⟨ob', h', rfl⟩ := h
      have := ih h'
      simp [this.1, this.2]

theorem decodeOperands_size {ts : List OperandType} {bs : Bytes} {vs : List Nat} {n : Nat}
    (h : decodeOperands ts bs = some (vs, n)) :
    n = operandsSize ts ∧ n ≤ bs.length ∧ vs.length = ts.length := by
  induction ts generalizing bs vs n with
  | nil => simp [decodeOperands] at h; obtain ⟨rfl, rfl⟩ := h; simp
  | cons t ts ih =>
    simp only [decodeOperands] at h
    split at h
    · cases h
    · rename_i hsz
      split at h
      · cases h
      · rename_i vs' n' hd
        simp only [Option.some.injEq, Prod.mk.injEq] at h
        obtain ⟨rfl, rfl⟩ := h
        have := ih hd
        simp only [List.length_drop] at this
        simp only [operandsSize_cons, List.length_cons]
        omega

theorem decodeOperands_encodeOperands {ts : List OperandType} {vs : List Nat} {ob : Bytes}
    (rest : Bytes) (hf : operandsFit ts vs) (h : encodeOperands ts vs = some ob) :
    decodeOperands ts (ob ++ rest) = some (vs, ob.length) := by
  induction ts generalizing vs ob with
  | nil =>
    cases vs with
    | nil => simp [encodeOperands] at h; subst h; simp [decodeOperands]
    | cons v vs => simp [encodeOperands] at h
  | cons t ts ih =>
    cases vs with
    | nil => simp [encodeOperands] at h
    | cons v vs =>
      simp only [encodeOperands, Option.map_eq_some_iff] at h
      obtain ⟨ob', h', rfl⟩ := h
      obtain ⟨hv, hf'⟩ := hf
      have ih' := ih hf' h'
      simp only [decodeOperands, List.append_assoc, List.length_append, leBytes_length]
      have h1 : ¬ (Gen.operandSize t > Gen.operandSize t + (ob'.length + rest.length)) := by omega
      rw [if_neg h1]
      have h2 : List.drop (Gen.operandSize t) (leBytes (Gen.operandSize t) v ++ (ob' ++ rest)) = ob' ++ rest := by
        exact List.drop_left' (leBytes_length _ _)
      have h3 : List.take (Gen.operandSize t) (leBytes (Gen.operandSize t) v ++ (ob' ++ rest))
          = leBytes (Gen.operandSize t) v := by
        exact List.take_left' (leBytes_length _ _)
      rw [h2, h3, ih', leVal_leBytes_of_lt _ _ hv]

theorem decodeOperands_fit {ts : List OperandType} {bs : Bytes} {vs : List Nat} {n : Nat}
    (h : decodeOperands ts bs = some (vs, n)) :
    operandsFit ts vs ∧ encodeOperands ts vs = some (bs.take n) := by
  induction ts generalizing bs vs n with
  | nil => simp [decodeOperands] at h; obtain ⟨rfl, rfl⟩ := h; simp [operandsFit, encodeOperands]
  | cons t ts ih =>
    simp only [decodeOperands] at h
    split at h
    · cases h
    · rename_i hsz
      split at h
      · cases h
      · rename_i vs' n' hd
        simp only [Option.some.injEq, Prod.mk.injEq] at h
        obtain ⟨rfl, rfl⟩ := h
        obtain ⟨hfit, henc⟩ := ih hd
        have hlen : (bs.take (Gen.operandSize t)).length = Gen.operandSize t := by
          simp; omega
        refine ⟨⟨?_, hfit⟩, ?_⟩
        · have := leVal_lt (bs.take (Gen.operandSize t))
          rwa [hlen] at this
        · simp only [encodeOperands, henc, Option.map_some]
          have := leBytes_leVal (bs.take (Gen.operandSize t))
          rw [hlen] at this
          rw [this, List.take_add]

end NanoVerif
