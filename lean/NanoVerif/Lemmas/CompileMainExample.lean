/-
A concrete instance of the hypotheses of `C01.compile_main_correct` (non-vacuity): the program
    fn main() -> int { let mut x: int = 5  while (< x 7) { set x (+ x 1) }  (println x)  return x }
goes through `compileProgram`, and the reference runs it to exit status 7 with output "7\n".
-/
import NanoVerif.Lemmas.CompileMain
import NanoVerif.Lemmas.CompileStmtExample
namespace NanoVerif.CompileEx3
open NanoVerif Gen CompileEx2

def body : List Stmt :=
  [.letS "x" true .int (.num 5),
   .whileS (.prefixOp .T_LT [.ident "x", .num 7]) [.setS "x" (.prefixOp .T_PLUS [.ident "x", .num 1])],
   .printS true (.ident "x"),
   .ret (some (.ident "x"))]
def prog : Program := [.fn "main" [] .int body]
def cs0 : CS := { strings := [stringToBytes "main"], locals := [] }
def cs1 : CS := { strings := [stringToBytes "main"], locals := [{ name := "x", ty := some .int }] }
def code : List PI :=
  ([ins .PUSH_I64 [pat64 5]] ++ [loadIdx .STORE_LOCAL 0]) ++
  ((ccW ++ [ins .JMP_FALSE [pat32 (5 + codeSize cbW + 5)]] ++ resolve (codeSize ccW + 5 + codeSize cbW + 5) 0 (codeSize ccW + 5) cbW
      ++ [ins .JMP [pat32 (-((codeSize ccW + 5 + codeSize cbW : Nat) : Int))]]) ++
   (([loadIdx .LOAD_LOCAL 0] ++ [ins .PRINTLN]) ++ (([loadIdx .LOAD_LOCAL 0] ++ [ins .RET]) ++ [])))

theorem local0 : cs1.localFind "x" = some 0 := by decide

theorem cStmt_ret_fwd {ce : CE} {cs cs1 : CS} {d : Nat} {e : Expr} {c : List PI}
    (he : cExpr ce cs e = .ok (cs1, c)) : cStmt ce cs d (.ret (some e)) = .ok (cs1, c ++ [ins .RET]) := by
  rw [cStmt]; simp only [he]

theorem compiles (ce : CE) : cStmts ce cs0 0 body = .ok (cs1, code) := by
  have hx : cExpr ce cs1 (.ident "x") = .ok (cs1, [loadIdx .LOAD_LOCAL 0]) := cExpr_ident_local _ _ _ 0 local0
  have hcond : cExpr ce cs1 (.prefixOp .T_LT [.ident "x", .num 7]) = .ok (cs1, ccW) :=
    cExpr_strict _ _ _ _ _ .LT _ _ _ _ hx (cExpr_num ..) rfl
  have hinc : cExpr ce cs1 (.prefixOp .T_PLUS [.ident "x", .num 1]) = .ok (cs1, [loadIdx .LOAD_LOCAL 0] ++ [ins .PUSH_I64 [pat64 1]] ++ [ins .ADD]) :=
    cExpr_strict _ _ _ _ _ .ADD _ _ _ _ hx (cExpr_num ..) rfl
  have hset := cStmt_set_fwd (d := 1) local0 hinc
  have hblk : cBlock ce cs1 1 [.setS "x" (.prefixOp .T_PLUS [.ident "x", .num 1])] = .ok (cs1, cbW) := by
    have := cBlock_fwd (cStmts_cons_fwd hset cStmts_nil)
    rw [scopeEnd_self] at this
    exact this
  have hwhile := cStmt_while_fwd (d := 0) (by decide) hcond hblk (by decide)
  have hprint := cStmt_print_fwd (d := 0) (ln := true) hx
  have hret := cStmt_ret_fwd (d := 0) hx
  have hlet : cStmt ce cs0 0 (.letS "x" true .int (.num 5)) = .ok (cs1, [ins .PUSH_I64 [pat64 5]] ++ [loadIdx .STORE_LOCAL 0]) :=
    cStmt_let_fwd (cExpr_num ..) rfl
  exact cStmts_cons_fwd hlet (cStmts_cons_fwd hwhile (cStmts_cons_fwd hprint (cStmts_cons_fwd hret cStmts_nil)))

def bytes : Bytes := [1, 5, 0, 0, 0, 0, 0, 0, 0, 17, 0, 0, 16, 0, 0, 1, 7, 0, 0, 0, 0, 0, 0, 0, 42, 58, 26, 0, 0, 0, 16, 0, 0, 1, 1, 0,
 0, 0, 0, 0, 0, 0, 32, 17, 0, 0, 56, 222, 255, 255, 255, 16, 0, 0, 164, 16, 0, 0, 61]
theorem encodes : encodeAll code = some bytes := by decide

def m : Module :=
  { flags := flagHasMain, entryPoint := 0, strings := [stringToBytes "main"],
    functions := [{ nameIdx := 0, arity := 0, codeOffset := 0, codeLength := 59, localCount := 1, upvalueCount := 0 }],
    code := bytes }

theorem cfun : cFunction (mainCE .int) [stringToBytes "main"] [] body = .ok ([stringToBytes "main"], bytes, 1) := by
  unfold cFunction
  simp only [List.map_nil, List.length_nil]
  rw [if_neg (by decide)]
  have h := compiles (mainCE .int)
  unfold cs0 at h
  simp only [h, encodes]
  rfl

theorem compileProgram_ok : compileProgram prog = .ok m := by
  unfold compileProgram prog
  have hd : hasDupFn [Item.fn "main" [] Ty.int body] = false := by
    simp [hasDupFn]
    decide
  simp only [hd, Bool.false_eq_true, if_false]
  have hp1 : pass1 [Item.fn "main" [] Ty.int body] {} {} =
      .ok (mainCE .int, { strings := [stringToBytes "main"], functions := [{ nameIdx := 0, arity := 0, codeOffset := 0, codeLength := 0, localCount := 0, upvalueCount := 0 }], code := [] }) := by
    simp [pass1, addString, mainCE, cgMaxFunctions]
  rw [hp1]
  have hff : (mainCE .int).fnFind "main" = some 0 := by simp [CE.fnFind, mainCE]
  have hg : ¬ ((mainCE .int).globals.length > 0) := by simp [mainCE]
  simp only [hg, if_false, pass2, hff, cfun, setFn]
  rfl

theorem runs : Sem.runProgram Sem.vmCfg prog (20 + 2) = ⟨[55, 10], .exit 7⟩ := by
  simp [prog, body, Sem.runProgram, Sem.initGlobals, Sem.evalArgs, Sem.builtin, Sem.isBuiltinName, Sem.findFn,
    Sem.execStmts, Sem.execStmt, Sem.execWhile, Sem.execBlock, Sem.evalExpr, Sem.lookup?, Sem.update, Sem.binArith,
    Sem.wrap64, Sem.fmtSVal, Sem.decBytes]
  decide +kernel

end NanoVerif.CompileEx3
