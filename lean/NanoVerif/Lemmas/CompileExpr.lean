/-
Compiler correctness for the pure expression fragment: per-instruction execution lemmas and the
simulation argument (reference semantics `Sem` vs the VM model running the code `cExpr` generates).
-/
import NanoVerif.Lemmas.VmExec
import NanoVerif.Model.Sem
import NanoVerif.Props.C02

namespace NanoVerif
open Gen

/-- `s` with a new instruction pointer and stack; everything else (heap, output, globals, frames) unchanged -/
def advS (s : VmState) (ip : Nat) (stack : List Val) : VmState :=
  { s with toCore := { s.toCore with ip := ip, stack := stack } }

@[simp] theorem advS_frames (s : VmState) (ip : Nat) (st : List Val) : (advS s ip st).frames = s.frames := rfl
@[simp] theorem advS_curFn (s : VmState) (ip : Nat) (st : List Val) : (advS s ip st).curFn = s.curFn := rfl
@[simp] theorem advS_ip (s : VmState) (ip : Nat) (st : List Val) : (advS s ip st).ip = ip := rfl
@[simp] theorem advS_stack (s : VmState) (ip : Nat) (st : List Val) : (advS s ip st).stack = st := rfl
@[simp] theorem advS_globals (s : VmState) (ip : Nat) (st : List Val) : (advS s ip st).globals = s.globals := rfl
@[simp] theorem advS_advS (s : VmState) (a b : Nat) (x y : List Val) : advS (advS s a x) b y = advS s b y := rfl

/-! ### well-formedness of the instructions the fragment uses (checked against the generated table) -/

theorem wf0 (op : Opc) (h : (lookup op.toByte).map (·.operands) = some []) : Instr.wf ⟨op.toByte, []⟩ := by
  refine ⟨Opc.toByte_lt op, ?_⟩
  cases hl : lookup op.toByte with
  | none => simp [hl] at h
  | some info =>
    simp only [hl, Option.map_some, Option.some.injEq] at h
    exact ⟨info, rfl, by rw [h]; trivial⟩

theorem wf1 (op : Opc) (t : OperandType) (v : Nat) (h : (lookup op.toByte).map (·.operands) = some [t])
    (hv : v < 256 ^ Gen.operandSize t) : Instr.wf ⟨op.toByte, [v]⟩ := by
  refine ⟨Opc.toByte_lt op, ?_⟩
  cases hl : lookup op.toByte with
  | none => simp [hl] at h
  | some info =>
    simp only [hl, Option.map_some, Option.some.injEq] at h
    exact ⟨info, rfl, by rw [h]; exact ⟨hv, trivial⟩⟩

theorem pat64_lt (v : Int) : pat64 v < 18446744073709551616 := by
  unfold pat64; omega
theorem pat32_lt (v : Int) : pat32 v < 4294967296 := by
  unfold pat32; omega

example : (lookup Opc.PUSH_I64.toByte).map (·.operands) = some [.i64] := by decide

/-! ### scalars do not touch the heap -/

def Val.scalar : Val → Bool
  | .int _ | .bool _ => true
  | _ => false

theorem release1_scalar (h : Heap) (v : Val) (hv : Val.scalar v = true) : h.release1 v = h := by
  unfold Heap.release1
  cases v <;> simp [Val.scalar] at hv <;> (rw [Heap.release]; simp only [Val.addr?]; rw [Heap.release])

theorem retain_scalar (h : Heap) (v : Val) (hv : Val.scalar v = true) : h.retain v = h := by
  cases v <;> simp [Val.scalar] at hv <;> simp [Heap.retain, Val.addr?]

@[simp] theorem core_release_scalar (c : Core) (v : Val) (hv : Val.scalar v = true) : c.release v = c := by
  unfold Core.release; rw [release1_scalar _ _ hv]
@[simp] theorem core_retain_scalar (c : Core) (v : Val) (hv : Val.scalar v = true) : c.retain v = c := by
  unfold Core.retain; rw [retain_scalar _ _ hv]

theorem pop_append (c : Core) (st : List Val) (v : Val) (h : c.stack = st ++ [v]) :
    c.pop = ({ c with stack := st }, v) := by
  unfold Core.pop; rw [h]; simp

/-! ### encodeAll on concatenations -/

theorem encodeAll_append (a b : List PI) (bs : Bytes) (h : encodeAll (a ++ b) = some bs) :
    ∃ ba bb, encodeAll a = some ba ∧ encodeAll b = some bb ∧ bs = ba ++ bb := by
  induction a generalizing bs with
  | nil => exact ⟨[], bs, rfl, h, rfl⟩
  | cons x r ih =>
    cases x with
    | i x =>
      simp only [List.cons_append, encodeAll] at h ⊢
      cases hx : encode x with
      | none => simp [hx] at h
      | some bx =>
        cases hr : encodeAll (r ++ b) with
        | none => simp [hx, hr] at h
        | some br =>
          simp only [hx, hr, Option.some.injEq] at h
          obtain ⟨ba, bb, h1, h2, h3⟩ := ih br hr
          refine ⟨bx ++ ba, bb, ?_, h2, ?_⟩
          · simp [h1]
          · rw [← h, h3, List.append_assoc]
    | brk => simp [encodeAll] at h
    | cont => simp [encodeAll] at h

theorem encodeAll_single (op : Opc) (args : List Nat) (bs : Bytes) (h : encodeAll [ins op args] = some bs) :
    encode ⟨op.toByte, args⟩ = some bs := by
  simp only [ins, encodeAll] at h
  cases hx : encode ⟨op.toByte, args⟩ with
  | none => simp [hx] at h
  | some b => simp only [hx, List.append_nil, Option.some.injEq] at h; rw [h]

/-! ### one dispatch of each instruction of the fragment -/

theorem exec1 {m : Module} {s : VmState} {fr : Frame} {frs : List Frame} {op : Opc} {args : List Nat} {bs : Bytes}
    (hfr : s.frames = fr :: frs) (hc : CodeAt m s.curFn s.ip bs)
    (he : encodeAll [ins op args] = some bs) (hwf : Instr.wf ⟨op.toByte, args⟩) (hctl : Opc.isControl op = false)
    (c' : Core) (hx : execData' m fr { s.toCore with ip := s.ip + bs.length } s.ip op args = (c', .running)) :
    runN m 1 s = ({ s with toCore := c' }, .running) := by
  simp only [runN]
  rw [step_data hfr hc (encodeAll_single _ _ _ he) hwf hctl, hx]
  rfl

theorem ed_push_i64 (m : Module) (fr : Frame) (c : Core) (is v : Nat) :
    execData' m fr c is .PUSH_I64 [v] = (c.push (.int (i64 v)), .running) := by
  simp [execData', cont]

theorem ed_push_bool (m : Module) (fr : Frame) (c : Core) (is v : Nat) :
    execData' m fr c is .PUSH_BOOL [v] = (c.push (.bool (v != 0)), .running) := by
  simp [execData', cont]

theorem ed_load_local (m : Module) (fr : Frame) (c : Core) (is k : Nat) (v : Val)
    (hk : fr.stackBase + k < 4294967296) (hv : c.stack[fr.stackBase + k]? = some v) (hs : Val.scalar v = true) :
    execData' m fr c is .LOAD_LOCAL [k] = (c.push v, .running) := by
  have hu : u32 (fr.stackBase + k) = fr.stackBase + k := by unfold u32; omega
  have hlt : fr.stackBase + k < c.stack.length := by
    rcases List.getElem?_eq_some_iff.mp hv with ⟨h, _⟩; exact h
  have hg : c.stack.getD (fr.stackBase + k) .void = v := by
    rw [List.getD_eq_getElem?_getD, hv]; rfl
  simp only [execData', List.getD_cons_zero, hu]
  rw [if_neg (by omega), hg, core_retain_scalar _ _ hs]
  rfl

theorem ed_load_global (m : Module) (fr : Frame) (c : Core) (is k : Nat) (v : Val)
    (hk : k < Gen.vmMaxGlobals) (hv : c.globals.getD k .void = v) (hs : Val.scalar v = true) :
    execData' m fr c is .LOAD_GLOBAL [k] = (c.push v, .running) := by
  simp only [execData', List.getD_cons_zero]
  rw [if_neg (by omega), hv, core_retain_scalar _ _ hs]
  rfl

theorem ed_neg (m : Module) (fr : Frame) (c : Core) (is : Nat) (st : List Val) (x : I64) (h : c.stack = st ++ [.int x]) :
    execData' m fr c is .NEG [] = ({ c with stack := st ++ [.int (-x)] }, .running) := by
  simp only [execData', pop_append c st _ h]
  rfl

theorem ed_not (m : Module) (fr : Frame) (c : Core) (is : Nat) (st : List Val) (b : Bool) (h : c.stack = st ++ [.bool b]) :
    execData' m fr c is .NOT [] = ({ c with stack := st ++ [.bool (!b)] }, .running) := by
  simp only [execData', pop_append c st _ h]
  rw [core_release_scalar _ _ rfl]
  rfl

theorem ed_cast_bool (m : Module) (fr : Frame) (c : Core) (is : Nat) (st : List Val) (b : Bool) (h : c.stack = st ++ [.bool b]) :
    execData' m fr c is .CAST_BOOL [] = ({ c with stack := st ++ [.bool b] }, .running) := by
  simp only [execData', pop_append c st _ h]
  rw [core_release_scalar _ _ rfl]
  rfl

theorem stack2 (c : Core) (st : List Val) (a b : Val) (h : c.stack = st ++ [a, b]) :
    c = (({ c with stack := st } : Core).push a).push b := by
  cases c; simp only [Core.push] at *; subst h; simp

theorem ed_arith (m : Module) (fr : Frame) (c : Core) (is : Nat) (st : List Val) (op : Opc)
    (hop : op = .ADD ∨ op = .SUB ∨ op = .MUL ∨ op = .DIV ∨ op = .MOD) (x y : I64) (h : c.stack = st ++ [.int x, .int y]) :
    execData' m fr c is op [] = ({ c with stack := st ++ [.int (C02.vmIntOp op x y)] }, .running) := by
  have e : execData' m fr c is op [] = binArith c op := by
    rcases hop with rfl | rfl | rfl | rfl | rfl <;> simp [execData']
  rw [e, stack2 c st _ _ h, C02.vm_arith_handler _ op hop]
  simp [cont, Core.push]

def cmpInt (op : Opc) (x y : Int) : Bool :=
  match op with
  | .EQ => x == y | .NE => x != y | .LT => decide (x < y) | .LE => decide (x ≤ y) | .GT => decide (x > y) | _ => decide (x ≥ y)

theorem cmpI_lt (x y : Int) : (decide ((if x < y then (-1 : Int) else if x > y then 1 else 0) < 0)) = decide (x < y) := by
  rw [decide_eq_decide]
  by_cases h1 : x < y <;> by_cases h2 : x > y <;> simp [h1, h2] <;> omega
theorem cmpI_le (x y : Int) : (decide ((if x < y then (-1 : Int) else if x > y then 1 else 0) ≤ 0)) = decide (x ≤ y) := by
  rw [decide_eq_decide]
  by_cases h1 : x < y <;> by_cases h2 : x > y <;> simp [h1, h2] <;> omega
theorem cmpI_gt (x y : Int) : (decide ((if x < y then (-1 : Int) else if x > y then 1 else 0) > 0)) = decide (x > y) := by
  rw [decide_eq_decide]
  by_cases h1 : x < y <;> by_cases h2 : x > y <;> simp [h1, h2] <;> omega
theorem cmpI_ge (x y : Int) : (decide ((if x < y then (-1 : Int) else if x > y then 1 else 0) ≥ 0)) = decide (x ≥ y) := by
  rw [decide_eq_decide]
  by_cases h1 : x < y <;> by_cases h2 : x > y <;> simp [h1, h2] <;> omega

theorem binCompare_int (c : Core) (st : List Val) (x y : I64) (h : c.stack = st ++ [.int x, .int y])
    (f : Heap → Val → Val → Option Bool) (r : Bool) (hf : ∀ hp, f hp (.int x) (.int y) = some r) :
    binCompare c f = ({ c with stack := st ++ [.bool r] }, .running) := by
  have hp : c.pop = ({ c with stack := st ++ [.int x] }, .int y) := by
    apply pop_append; rw [h]; simp
  have hp2 : ({ c with stack := st ++ [.int x] } : Core).pop = ({ c with stack := st }, .int x) := by
    apply pop_append; rfl
  simp only [binCompare, hp, hp2, hf, cont]
  rw [core_release_scalar _ _ rfl, core_release_scalar _ _ rfl]
  rfl

theorem ed_cmp_int (m : Module) (fr : Frame) (c : Core) (is : Nat) (st : List Val) (op : Opc)
    (hop : op = .EQ ∨ op = .NE ∨ op = .LT ∨ op = .LE ∨ op = .GT ∨ op = .GE) (x y : I64) (h : c.stack = st ++ [.int x, .int y]) :
    execData' m fr c is op [] = ({ c with stack := st ++ [.bool (cmpInt op x.toInt y.toInt)] }, .running) := by
  have hc := C02.cmp_agree x y
  rcases hop with rfl | rfl | rfl | rfl | rfl | rfl
  · have e : execData' m fr c is .EQ [] = binCompare c valEqual := by simp [execData']
    rw [e]; exact binCompare_int c st x y h _ _ (fun _ => by show some (x == y) = _; rw [hc.1]; rfl)
  · have e : execData' m fr c is .NE [] = binCompare c (fun h a b => (valEqual h a b).map (!·)) := by simp [execData']
    rw [e]; exact binCompare_int c st x y h _ _ (fun _ => by show some (!(x == y)) = _; rw [hc.1]; rfl)
  · have e : execData' m fr c is .LT [] = binCompare c (fun h a b => (valCompare h a b).map (· < 0)) := by simp [execData']
    rw [e]; exact binCompare_int c st x y h _ _ (fun _ => by simp only [valCompare, Option.map_some, cmpInt, cmpI_lt])
  · have e : execData' m fr c is .LE [] = binCompare c (fun h a b => (valCompare h a b).map (· ≤ 0)) := by simp [execData']
    rw [e]; exact binCompare_int c st x y h _ _ (fun _ => by simp only [valCompare, Option.map_some, cmpInt, cmpI_le])
  · have e : execData' m fr c is .GT [] = binCompare c (fun h a b => (valCompare h a b).map (· > 0)) := by simp [execData']
    rw [e]; exact binCompare_int c st x y h _ _ (fun _ => by simp only [valCompare, Option.map_some, cmpInt, cmpI_gt])
  · have e : execData' m fr c is .GE [] = binCompare c (fun h a b => (valCompare h a b).map (· ≥ 0)) := by simp [execData']
    rw [e]; exact binCompare_int c st x y h _ _ (fun _ => by simp only [valCompare, Option.map_some, cmpInt, cmpI_ge])

theorem binCompare_bool (c : Core) (st : List Val) (x y : Bool) (h : c.stack = st ++ [.bool x, .bool y])
    (f : Heap → Val → Val → Option Bool) (r : Bool) (hf : ∀ hp, f hp (.bool x) (.bool y) = some r) :
    binCompare c f = ({ c with stack := st ++ [.bool r] }, .running) := by
  have hp : c.pop = ({ c with stack := st ++ [.bool x] }, .bool y) := by
    apply pop_append; rw [h]; simp
  have hp2 : ({ c with stack := st ++ [.bool x] } : Core).pop = ({ c with stack := st }, .bool x) := by
    apply pop_append; rfl
  simp only [binCompare, hp, hp2, hf, cont]
  rw [core_release_scalar _ _ rfl, core_release_scalar _ _ rfl]
  rfl

theorem ed_eq_bool (m : Module) (fr : Frame) (c : Core) (is : Nat) (st : List Val) (x y : Bool) (h : c.stack = st ++ [.bool x, .bool y]) :
    execData' m fr c is .EQ [] = ({ c with stack := st ++ [.bool (x == y)] }, .running) := by
  have e : execData' m fr c is .EQ [] = binCompare c valEqual := by simp [execData']
  rw [e]; exact binCompare_bool c st x y h _ _ (fun _ => rfl)

theorem ed_ne_bool (m : Module) (fr : Frame) (c : Core) (is : Nat) (st : List Val) (x y : Bool) (h : c.stack = st ++ [.bool x, .bool y]) :
    execData' m fr c is .NE [] = ({ c with stack := st ++ [.bool (x != y)] }, .running) := by
  have e : execData' m fr c is .NE [] = binCompare c (fun h a b => (valEqual h a b).map (!·)) := by simp [execData']
  rw [e]; exact binCompare_bool c st x y h _ _ (fun _ => rfl)

/-- target of a forward jump by `d` bytes from the instruction at `is` -/
theorem jmp_target (is d : Nat) (h : is + d < 2147483648) :
    u32 (((is : Int) + toI32 (pat32 (d : Int))) % 4294967296).toNat = is + d := by
  have hp : pat32 (d : Int) = d := by unfold pat32; omega
  have ht : toI32 d = (d : Int) := by unfold toI32; rw [if_neg (by omega)]
  rw [hp, ht]; unfold u32; omega

theorem ed_jmp (m : Module) (fr : Frame) (c : Core) (is d : Nat) (h : is + d < 2147483648) :
    execData' m fr c is .JMP [pat32 (d : Int)] = ({ c with ip := is + d }, .running) := by
  simp only [execData', List.getD_cons_zero, jmp_target is d h]
  rfl

theorem ed_jmp_false (m : Module) (fr : Frame) (c : Core) (is d : Nat) (st : List Val) (b : Bool)
    (h : is + d < 2147483648) (hs : c.stack = st ++ [.bool b]) :
    execData' m fr c is .JMP_FALSE [pat32 (d : Int)] = ({ c with stack := st, ip := if b then c.ip else is + d }, .running) := by
  simp only [execData', List.getD_cons_zero, jmp_target is d h, pop_append c st _ hs, truthy]
  rw [core_release_scalar _ _ rfl]
  cases b <;> rfl

theorem ed_jmp_true (m : Module) (fr : Frame) (c : Core) (is d : Nat) (st : List Val) (b : Bool)
    (h : is + d < 2147483648) (hs : c.stack = st ++ [.bool b]) :
    execData' m fr c is .JMP_TRUE [pat32 (d : Int)] = ({ c with stack := st, ip := if b then is + d else c.ip }, .running) := by
  simp only [execData', List.getD_cons_zero, jmp_target is d h, pop_append c st _ hs, truthy]
  rw [core_release_scalar _ _ rfl]
  cases b <;> rfl

/-! ### what `cExpr` emits on the fragment -/

theorem cExpr_num (ce : CE) (cs : CS) (v : Int) : cExpr ce cs (.num v) = .ok (cs, [ins .PUSH_I64 [pat64 v]]) := by
  rw [cExpr]

theorem cExpr_bool (ce : CE) (cs : CS) (b : Bool) : cExpr ce cs (.bool b) = .ok (cs, [ins .PUSH_BOOL [if b then 1 else 0]]) := by
  rw [cExpr]

theorem cExpr_ident_local (ce : CE) (cs : CS) (x : String) (k : Nat) (h : cs.localFind x = some k) :
    cExpr ce cs (.ident x) = .ok (cs, [loadIdx .LOAD_LOCAL k]) := by
  rw [cExpr]; simp only [h]

theorem cExpr_ident_global (ce : CE) (cs : CS) (x : String) (g : Nat) (h : cs.localFind x = none) (hg : ce.globalFind x = some g) :
    cExpr ce cs (.ident x) = .ok (cs, [loadIdx .LOAD_GLOBAL g]) := by
  rw [cExpr]; simp only [h, hg]

theorem cExpr_un_err (ce : CE) (cs : CS) (op : TT) (a : Expr) (e : CgErr) (h : cExpr ce cs a = .error e) :
    cExpr ce cs (.prefixOp op [a]) = .error e := by
  rw [cExpr.eq_def]; simp only [h]

theorem cExpr_neg (ce : CE) (cs cs1 : CS) (a : Expr) (ca : List PI) (h : cExpr ce cs a = .ok (cs1, ca)) :
    cExpr ce cs (.prefixOp .T_MINUS [a]) = .ok (cs1, ca ++ [ins .NEG]) := by
  rw [cExpr]; simp only [h]; rfl

theorem cExpr_not (ce : CE) (cs cs1 : CS) (a : Expr) (ca : List PI) (h : cExpr ce cs a = .ok (cs1, ca)) :
    cExpr ce cs (.prefixOp .T_NOT [a]) = .ok (cs1, ca ++ [ins .NOT]) := by
  rw [cExpr]; simp only [h]; rfl

theorem cExpr_bin_err1 (ce : CE) (cs : CS) (op : TT) (a b : Expr) (e : CgErr) (h : cExpr ce cs a = .error e) :
    cExpr ce cs (.prefixOp op [a, b]) = .error e := by
  rw [cExpr.eq_def]; simp only [h]

theorem cExpr_bin_err2 (ce : CE) (cs cs1 : CS) (op : TT) (a b : Expr) (ca : List PI) (e : CgErr)
    (h : cExpr ce cs a = .ok (cs1, ca)) (h2 : cExpr ce cs1 b = .error e) :
    cExpr ce cs (.prefixOp op [a, b]) = .error e := by
  rw [cExpr.eq_def]; simp only [h, h2]

/-- the VM opcode of a strict binary operator -/
def binOpc : TT → Option Opc
  | .T_PLUS => some .ADD | .T_MINUS => some .SUB | .T_STAR => some .MUL | .T_SLASH => some .DIV
  | .T_PERCENT => some .MOD | .T_EQ => some .EQ | .T_NE => some .NE | .T_LT => some .LT
  | .T_LE => some .LE | .T_GT => some .GT | .T_GE => some .GE | _ => none

theorem cExpr_strict (ce : CE) (cs cs1 cs2 : CS) (op : TT) (o : Opc) (a b : Expr) (ca cb : List PI)
    (h : cExpr ce cs a = .ok (cs1, ca)) (h2 : cExpr ce cs1 b = .ok (cs2, cb)) (ho : binOpc op = some o) :
    cExpr ce cs (.prefixOp op [a, b]) = .ok (cs2, ca ++ cb ++ [ins o]) := by
  rw [cExpr.eq_def]; simp only [h, h2]
  cases op <;> simp [binOpc] at ho <;> subst ho <;> rfl

theorem cExpr_and (ce : CE) (cs cs1 cs2 : CS) (a b : Expr) (ca cb : List PI)
    (h : cExpr ce cs a = .ok (cs1, ca)) (h2 : cExpr ce cs1 b = .ok (cs2, cb)) :
    cExpr ce cs (.prefixOp .T_AND [a, b]) =
      .ok (cs2, ca ++ [ins .JMP_FALSE [pat32 (5 + codeSize cb + 1 + 5)]] ++ cb ++ [ins .CAST_BOOL, ins .JMP [pat32 (5 + 2)], ins .PUSH_BOOL [0]]) := by
  rw [cExpr.eq_def]; simp only [h, h2]; rfl

theorem cExpr_or (ce : CE) (cs cs1 cs2 : CS) (a b : Expr) (ca cb : List PI)
    (h : cExpr ce cs a = .ok (cs1, ca)) (h2 : cExpr ce cs1 b = .ok (cs2, cb)) :
    cExpr ce cs (.prefixOp .T_OR [a, b]) =
      .ok (cs2, ca ++ [ins .JMP_TRUE [pat32 (5 + codeSize cb + 1 + 5)]] ++ cb ++ [ins .CAST_BOOL, ins .JMP [pat32 (5 + 2)], ins .PUSH_BOOL [1]]) := by
  rw [cExpr.eq_def]; simp only [h, h2]; rfl

/-! ### the simulation relation -/

theorem i64_pat64 (v : Int) : (i64 (pat64 v)).toInt = Sem.wrap64 v := by
  unfold i64 pat64
  rw [C02.wrap64_eq_bmod]
  have h : BitVec.ofNat 64 (v % 18446744073709551616).toNat = BitVec.ofInt 64 v := by
    apply BitVec.eq_of_toNat_eq
    simp only [BitVec.toNat_ofNat, BitVec.toNat_ofInt]
    omega
  rw [h, BitVec.toInt_ofInt]

/-- a reference value and the VM value that represents it (the fragment's values are scalars) -/
inductive VRel : Sem.SVal → Val → Prop
  | int (x : I64) : VRel (.int x.toInt) (.int x)
  | bool (b : Bool) : VRel (.bool b) (.bool b)

theorem VRel.scalar {w : Sem.SVal} {v : Val} (h : VRel w v) : Val.scalar v = true := by
  cases h <;> rfl

theorem VRel.of_int {i : Int} {v : Val} (h : VRel (.int i) v) : ∃ x : I64, v = .int x ∧ i = x.toInt := by
  cases h with
  | int x => exact ⟨x, rfl, rfl⟩

theorem VRel.of_bool {b : Bool} {v : Val} (h : VRel (.bool b) v) : v = .bool b := by
  cases h; rfl

/-- the compile-time environment `cs`/`ce` and the machine state describe the reference environment:
    every variable the reference can see is a scalar stored in the slot the generator resolves it to -/
structure EnvOK (ce : CE) (cs : CS) (loc : Sem.Locals) (g : Sem.GState) (base : Nat) (stack globals : List Val) : Prop where
  locals : ∀ x w, Sem.lookup? loc x = some w →
    ∃ k v, cs.localFind x = some k ∧ stack[base + k]? = some v ∧ VRel w v ∧ k < 65536 ∧ base + k < 4294967296
  globals : ∀ x w, Sem.lookup? loc x = none → Sem.lookup? g.globals x = some w →
    cs.localFind x = none ∧ ∃ idx, ce.globalFind x = some idx ∧ idx < Gen.vmMaxGlobals ∧ VRel w (globals.getD idx .void)

theorem EnvOK.push {ce : CE} {cs : CS} {loc : Sem.Locals} {g : Sem.GState} {base : Nat} {stack globals : List Val}
    (h : EnvOK ce cs loc g base stack globals) (extra : List Val) : EnvOK ce cs loc g base (stack ++ extra) globals := by
  refine ⟨?_, h.globals⟩
  intro x w hx
  obtain ⟨k, v, h1, h2, h3, h4, h5⟩ := h.locals x w hx
  refine ⟨k, v, h1, ?_, h3, h4, h5⟩
  have hlt : base + k < stack.length := by
    rcases List.getElem?_eq_some_iff.mp h2 with ⟨hh, _⟩; exact hh
  rw [List.getElem?_append_left hlt]; exact h2

/-- running the code `bs` found at `s.ip` pushes a representation of `w` and changes nothing else -/
def Sim (m : Module) (s : VmState) (bs : Bytes) (w : Sem.SVal) : Prop :=
  ∃ v n, VRel w v ∧ runN m n s = (advS s (s.ip + bs.length) (s.stack ++ [v]), .running)

/-- the statement proved for every expression of the fragment -/
def SimE (m : Module) (ce : CE) (p : Program) (e : Expr) : Prop :=
  ∀ (cs cs' : CS) (code : List PI) (fuel : Nat) (loc : Sem.Locals) (g g' : Sem.GState) (w : Sem.SVal)
    (s : VmState) (fr : Frame) (frs : List Frame) (bs : Bytes),
    cExpr ce cs e = .ok (cs', code) →
    Sem.evalExpr Sem.vmCfg p fuel loc g e = .ok (w, g') →
    s.frames = fr :: frs → encodeAll code = some bs → CodeAt m s.curFn s.ip bs →
    EnvOK ce cs loc g fr.stackBase s.stack s.globals →
    cs' = cs ∧ g' = g ∧ Sim m s bs w

theorem sim_num (m : Module) (ce : CE) (p : Program) (v : Int) : SimE m ce p (.num v) := by
  intro cs cs' code fuel loc g g' w s fr frs bs hc hs hfr he hca _
  rw [cExpr_num] at hc
  simp only [Except.ok.injEq, Prod.mk.injEq] at hc
  obtain ⟨rfl, rfl⟩ := hc
  cases fuel with
  | zero => simp [Sem.evalExpr] at hs
  | succ f =>
    simp only [Sem.evalExpr, Except.ok.injEq, Prod.mk.injEq] at hs
    obtain ⟨rfl, rfl⟩ := hs
    refine ⟨rfl, rfl, .int (i64 (pat64 v)), 1, ?_, ?_⟩
    · rw [← i64_pat64]; exact VRel.int _
    · exact exec1 hfr hca he (wf1 _ .i64 _ (by decide) (pat64_lt v)) rfl _ (ed_push_i64 ..)

theorem sim_bool (m : Module) (ce : CE) (p : Program) (b : Bool) : SimE m ce p (.bool b) := by
  intro cs cs' code fuel loc g g' w s fr frs bs hc hs hfr he hca _
  rw [cExpr_bool] at hc
  simp only [Except.ok.injEq, Prod.mk.injEq] at hc
  obtain ⟨rfl, rfl⟩ := hc
  cases fuel with
  | zero => simp [Sem.evalExpr] at hs
  | succ f =>
    simp only [Sem.evalExpr, Except.ok.injEq, Prod.mk.injEq] at hs
    obtain ⟨rfl, rfl⟩ := hs
    refine ⟨rfl, rfl, .bool b, 1, VRel.bool b, ?_⟩
    have hx := ed_push_bool m fr { s.toCore with ip := s.ip + bs.length } s.ip (if b then 1 else 0)
    have hb : ((if b then 1 else 0 : Nat) != 0) = b := by cases b <;> rfl
    rw [hb] at hx
    exact exec1 hfr hca he (wf1 _ .u8 _ (by decide) (by cases b <;> decide)) rfl _ hx

theorem sim_ident (m : Module) (ce : CE) (p : Program) (x : String) : SimE m ce p (.ident x) := by
  intro cs cs' code fuel loc g g' w s fr frs bs hc hs hfr he hca henv
  cases fuel with
  | zero => simp [Sem.evalExpr] at hs
  | succ f =>
    simp only [Sem.evalExpr] at hs
    cases hl : Sem.lookup? loc x with
    | some wl =>
      simp only [hl, Except.ok.injEq, Prod.mk.injEq] at hs
      obtain ⟨rfl, rfl⟩ := hs
      obtain ⟨k, v, h1, h2, h3, h4, h5⟩ := henv.locals x _ hl
      rw [cExpr_ident_local ce cs x k h1] at hc
      simp only [Except.ok.injEq, Prod.mk.injEq] at hc
      obtain ⟨rfl, rfl⟩ := hc
      refine ⟨rfl, rfl, v, 1, h3, ?_⟩
      exact exec1 hfr hca he (wf1 _ .u16 _ (by decide) (by show k < 256 ^ 2; omega)) rfl _
        (ed_load_local m fr _ s.ip k v h5 h2 h3.scalar)
    | none =>
      simp only [hl] at hs
      cases hg : Sem.lookup? g.globals x with
      | none => simp [hg] at hs
      | some wg =>
        simp only [hg, Except.ok.injEq, Prod.mk.injEq] at hs
        obtain ⟨rfl, rfl⟩ := hs
        obtain ⟨h1, idx, h2, h3, h4⟩ := henv.globals x _ hl hg
        rw [cExpr_ident_global ce cs x idx h1 h2] at hc
        simp only [Except.ok.injEq, Prod.mk.injEq] at hc
        obtain ⟨rfl, rfl⟩ := hc
        refine ⟨rfl, rfl, _, 1, h4, ?_⟩
        exact exec1 hfr hca he (wf1 _ .u32 _ (by decide) (by
          have : Gen.vmMaxGlobals ≤ 4294967296 := by decide
          show idx < 256 ^ 4
          omega)) rfl _
          (ed_load_global m fr _ s.ip idx _ h3 rfl h4.scalar)

/-- one stack-only instruction executed in the state reached after a prefix of the code -/
theorem exec1_adv {m : Module} {s : VmState} {fr : Frame} {frs : List Frame} {op : Opc} {args : List Nat} {bb : Bytes}
    (ip1 : Nat) (stk1 st' : List Val) (hfr : s.frames = fr :: frs)
    (hc : CodeAt m s.curFn ip1 bb) (he : encodeAll [ins op args] = some bb)
    (hwf : Instr.wf ⟨op.toByte, args⟩) (hctl : Opc.isControl op = false)
    (hx : ∀ c : Core, c.stack = stk1 → execData' m fr c ip1 op args = ({ c with stack := st' }, .running)) :
    runN m 1 (advS s ip1 stk1) = (advS s (ip1 + bb.length) st', .running) := by
  have := exec1 (s := advS s ip1 stk1) (fr := fr) (frs := frs) (by simpa using hfr) (by simpa using hc) he hwf hctl _
    (hx { (advS s ip1 stk1).toCore with ip := ip1 + bb.length } rfl)
  rw [this]; rfl

theorem sim_neg (m : Module) (ce : CE) (p : Program) (a : Expr) (iha : SimE m ce p a) : SimE m ce p (.prefixOp .T_MINUS [a]) := by
  intro cs cs' code fuel loc g g' w s fr frs bs hc hs hfr he hca henv
  cases hca' : cExpr ce cs a with
  | error e => rw [cExpr_un_err ce cs _ a e hca'] at hc; cases hc
  | ok r =>
    obtain ⟨cs1, ca⟩ := r
    rw [cExpr_neg ce cs cs1 a ca hca'] at hc
    simp only [Except.ok.injEq, Prod.mk.injEq] at hc
    obtain ⟨rfl, rfl⟩ := hc
    cases fuel with
    | zero => simp [Sem.evalExpr] at hs
    | succ f =>
      simp only [Sem.evalExpr] at hs
      cases hea : Sem.evalExpr Sem.vmCfg p f loc g a with
      | error er => simp [hea] at hs
      | ok r =>
        obtain ⟨va, g1⟩ := r
        simp only [hea] at hs
        obtain ⟨ba, bb, hba, hbb, rfl⟩ := encodeAll_append _ _ _ he
        obtain ⟨rfl, rfl, v, n, hv, hrun⟩ := iha cs cs1 ca f loc g g1 va s fr frs ba hca' hea hfr hba hca.left henv
        cases va with
        | int i =>
          simp only [Except.ok.injEq, Prod.mk.injEq] at hs
          obtain ⟨rfl, rfl⟩ := hs
          obtain ⟨x, rfl, rfl⟩ := hv.of_int
          refine ⟨rfl, rfl, .int (-x), n + 1, ?_, ?_⟩
          · rw [C02.neg_agree_sem]; exact VRel.int _
          · rw [runN_add m n 1 s _ hrun]
            rw [exec1_adv (s.ip + ba.length) _ (s.stack ++ [.int (-x)]) hfr hca.right hbb (wf0 _ (by decide)) rfl
              (fun c hcst => ed_neg m fr c _ s.stack x hcst)]
            simp [List.length_append, Nat.add_assoc]
        | _ => simp at hs

theorem sim_not (m : Module) (ce : CE) (p : Program) (a : Expr) (iha : SimE m ce p a) : SimE m ce p (.prefixOp .T_NOT [a]) := by
  intro cs cs' code fuel loc g g' w s fr frs bs hc hs hfr he hca henv
  cases hca' : cExpr ce cs a with
  | error e => rw [cExpr_un_err ce cs _ a e hca'] at hc; cases hc
  | ok r =>
    obtain ⟨cs1, ca⟩ := r
    rw [cExpr_not ce cs cs1 a ca hca'] at hc
    simp only [Except.ok.injEq, Prod.mk.injEq] at hc
    obtain ⟨rfl, rfl⟩ := hc
    cases fuel with
    | zero => simp [Sem.evalExpr] at hs
    | succ f =>
      simp only [Sem.evalExpr] at hs
      cases hea : Sem.evalExpr Sem.vmCfg p f loc g a with
      | error er => simp [hea] at hs
      | ok r =>
        obtain ⟨va, g1⟩ := r
        simp only [hea] at hs
        obtain ⟨ba, bb, hba, hbb, rfl⟩ := encodeAll_append _ _ _ he
        obtain ⟨rfl, rfl, v, n, hv, hrun⟩ := iha cs cs1 ca f loc g g1 va s fr frs ba hca' hea hfr hba hca.left henv
        cases va with
        | bool b =>
          simp only [Except.ok.injEq, Prod.mk.injEq] at hs
          obtain ⟨rfl, rfl⟩ := hs
          have := hv.of_bool; subst this
          refine ⟨rfl, rfl, .bool (!b), n + 1, VRel.bool _, ?_⟩
          rw [runN_add m n 1 s _ hrun]
          rw [exec1_adv (s.ip + ba.length) _ (s.stack ++ [.bool (!b)]) hfr hca.right hbb (wf0 _ (by decide)) rfl
            (fun c hcst => ed_not m fr c _ s.stack b hcst)]
          simp [List.length_append, Nat.add_assoc]
        | _ => simp at hs

/-- what a strict binary operator does to two represented operands, on both sides -/
theorem strict_step (op : TT) (o : Opc) (ho : binOpc op = some o) (wa wb w : Sem.SVal) (va vb : Val)
    (h1 : VRel wa va) (h2 : VRel wb vb) (hb : Sem.binArith Sem.vmCfg op wa wb = .ok w) :
    ∃ v, VRel w v ∧ Opc.isControl o = false ∧ Instr.wf ⟨o.toByte, []⟩ ∧
      ∀ (m : Module) (fr : Frame) (c : Core) (is : Nat) (st : List Val), c.stack = st ++ [va, vb] →
        execData' m fr c is o [] = ({ c with stack := st ++ [v] }, .running) := by
  cases h1 with
  | int x =>
    cases h2 with
    | int y =>
      by_cases har : o = .ADD ∨ o = .SUB ∨ o = .MUL ∨ o = .DIV ∨ o = .MOD
      · have hsem : C02.semOp o = op := by
          rcases har with rfl | rfl | rfl | rfl | rfl <;> cases op <;> simp [binOpc] at ho <;> rfl
        have := C02.arith_agree o har x y
        rw [hsem, hb] at this
        simp only [Except.ok.injEq] at this
        subst this
        refine ⟨.int (C02.vmIntOp o x y), VRel.int _, ?_, ?_, fun m fr c is st h => ed_arith m fr c is st o har x y h⟩
        · rcases har with rfl | rfl | rfl | rfl | rfl <;> rfl
        · rcases har with rfl | rfl | rfl | rfl | rfl <;> exact wf0 _ (by decide)
      · have hcm : o = .EQ ∨ o = .NE ∨ o = .LT ∨ o = .LE ∨ o = .GT ∨ o = .GE := by
          cases op <;> simp [binOpc] at ho <;> subst ho <;> simp at har ⊢
        have hw : w = .bool (cmpInt o x.toInt y.toInt) := by
          rcases hcm with rfl | rfl | rfl | rfl | rfl | rfl <;> cases op <;> simp [binOpc] at ho <;>
            simp [Sem.binArith] at hb <;> subst hb <;> simp [cmpInt]
        subst hw
        refine ⟨.bool _, VRel.bool _, ?_, ?_, fun m fr c is st h => ed_cmp_int m fr c is st o hcm x y h⟩
        · rcases hcm with rfl | rfl | rfl | rfl | rfl | rfl <;> rfl
        · rcases hcm with rfl | rfl | rfl | rfl | rfl | rfl <;> exact wf0 _ (by decide)
    | bool y => cases op <;> simp [Sem.binArith] at hb
  | bool x =>
    cases h2 with
    | int y => cases op <;> simp [Sem.binArith] at hb
    | bool y =>
      cases op <;> simp [binOpc] at ho <;> subst ho <;> simp [Sem.binArith] at hb <;> subst hb
      · exact ⟨.bool (x == y), VRel.bool _, rfl, wf0 _ (by decide), fun m fr c is st h => ed_eq_bool m fr c is st x y h⟩
      · exact ⟨.bool (x != y), VRel.bool _, rfl, wf0 _ (by decide), fun m fr c is st h => ed_ne_bool m fr c is st x y h⟩

theorem binOpc_not_logic (op : TT) (o : Opc) (ho : binOpc op = some o) : (op == TT.T_AND) = false ∧ (op == TT.T_OR) = false := by
  cases op <;> simp [binOpc] at ho <;> exact ⟨rfl, rfl⟩

/-- two stack values after a prefix, then one instruction that combines them -/
theorem sim_strict (m : Module) (ce : CE) (p : Program) (op : TT) (o : Opc) (ho : binOpc op = some o) (a b : Expr)
    (iha : SimE m ce p a) (ihb : SimE m ce p b) : SimE m ce p (.prefixOp op [a, b]) := by
  intro cs cs' code fuel loc g g' w s fr frs bs hc hs hfr he hca henv
  cases hca' : cExpr ce cs a with
  | error e => rw [cExpr_bin_err1 ce cs op a b e hca'] at hc; cases hc
  | ok r =>
    obtain ⟨cs1, ca⟩ := r
    cases hcb' : cExpr ce cs1 b with
    | error e => rw [cExpr_bin_err2 ce cs cs1 op a b ca e hca' hcb'] at hc; cases hc
    | ok r2 =>
      obtain ⟨cs2, cb⟩ := r2
      rw [cExpr_strict ce cs cs1 cs2 op o a b ca cb hca' hcb' ho] at hc
      simp only [Except.ok.injEq, Prod.mk.injEq] at hc
      obtain ⟨rfl, rfl⟩ := hc
      cases fuel with
      | zero => simp [Sem.evalExpr] at hs
      | succ f =>
        obtain ⟨hna, hno⟩ := binOpc_not_logic op o ho
        simp only [Sem.evalExpr, hna, hno, Bool.false_eq_true, if_false] at hs
        cases hea : Sem.evalExpr Sem.vmCfg p f loc g a with
        | error er => simp [hea] at hs
        | ok ra =>
          obtain ⟨wa, g1⟩ := ra
          simp only [hea] at hs
          cases heb : Sem.evalExpr Sem.vmCfg p f loc g1 b with
          | error er => simp [heb] at hs
          | ok rb =>
            obtain ⟨wb, g2⟩ := rb
            simp only [heb] at hs
            cases hbin : Sem.binArith Sem.vmCfg op wa wb with
            | error er => simp [hbin] at hs
            | ok w' =>
              simp only [hbin, Except.ok.injEq, Prod.mk.injEq] at hs
              obtain ⟨rfl, rfl⟩ := hs
              obtain ⟨bab, bo, hbab, hbo, rfl⟩ := encodeAll_append _ _ _ he
              obtain ⟨ba, bb, hba, hbb, rfl⟩ := encodeAll_append _ _ _ hbab
              obtain ⟨rfl, rfl, va, n1, hva, hrun1⟩ :=
                iha cs cs1 ca f loc g g1 wa s fr frs ba hca' hea hfr hba hca.left.left henv
              have hcb2 : CodeAt m (advS s (s.ip + ba.length) (s.stack ++ [va])).curFn (advS s (s.ip + ba.length) (s.stack ++ [va])).ip bb := by
                simpa using hca.left.right
              obtain ⟨rfl, rfl, vb, n2, hvb, hrun2⟩ :=
                ihb cs1 cs2 cb f loc g1 g2 wb (advS s (s.ip + ba.length) (s.stack ++ [va])) fr frs bb hcb' heb
                  (by simpa using hfr) hbb hcb2 (by simpa using henv.push [va])
              obtain ⟨v, hv, hctl, hwf, hex⟩ := strict_step op o ho wa wb w' va vb hva hvb hbin
              refine ⟨rfl, rfl, v, n1 + (n2 + 1), hv, ?_⟩
              rw [runN_add m n1 (n2 + 1) s _ hrun1, runN_add m n2 1 _ _ hrun2]
              simp only [advS_ip, advS_stack, advS_advS, List.append_assoc, List.cons_append, List.nil_append]
              have hco : CodeAt m s.curFn (s.ip + ba.length + bb.length) bo := by
                have := hca.right
                simpa [List.length_append, Nat.add_assoc] using this
              rw [exec1_adv (s.ip + ba.length + bb.length) _ (s.stack ++ [v]) hfr hco hbo hwf hctl
                (fun c hcst => hex m fr c _ s.stack hcst)]
              simp [List.length_append, Nat.add_assoc]

/-! ### sizes -/

theorem encode_length (x : Instr) (b : Bytes) (h : encode x = some b) : b.length = instrSize x := by
  unfold encode encodeBuf at h
  unfold instrSize
  cases hl : lookup x.opcode with
  | none => simp [hl] at h
  | some info =>
    simp only [hl] at h ⊢
    cases ho : encodeOperands info.operands x.operands with
    | none => simp [ho] at h
    | some ob =>
      simp only [ho] at h
      split at h
      · cases h
      · simp only [Option.some.injEq] at h
        subst h
        have := (encodeOperands_length ho).1
        simp [this, operandsSize, Nat.add_comm]

theorem encodeAll_length (c : List PI) (bs : Bytes) (h : encodeAll c = some bs) : bs.length = codeSize c := by
  induction c generalizing bs with
  | nil => simp [encodeAll] at h; subst h; rfl
  | cons x r ih =>
    cases x with
    | i x =>
      simp only [encodeAll] at h
      cases hx : encode x with
      | none => simp [hx] at h
      | some bx =>
        cases hr : encodeAll r with
        | none => simp [hx, hr] at h
        | some br =>
          simp only [hx, hr, Option.some.injEq] at h
          subst h
          simp [codeSize, PI.size, encode_length x bx hx, ih br hr]
    | brk => simp [encodeAll] at h
    | cont => simp [encodeAll] at h

theorem single_length (op : Opc) (args : List Nat) (bs : Bytes) (h : encodeAll [ins op args] = some bs) :
    bs.length = instrSize ⟨op.toByte, args⟩ :=
  encode_length _ _ (encodeAll_single op args bs h)

/-- one instruction that may also move the instruction pointer, executed after a prefix of the code -/
theorem exec1_jmp {m : Module} {s : VmState} {fr : Frame} {frs : List Frame} {op : Opc} {args : List Nat} {bb : Bytes}
    (ip1 ip' : Nat) (stk1 st' : List Val) (hfr : s.frames = fr :: frs)
    (hc : CodeAt m s.curFn ip1 bb) (he : encodeAll [ins op args] = some bb)
    (hwf : Instr.wf ⟨op.toByte, args⟩) (hctl : Opc.isControl op = false)
    (hx : ∀ c : Core, c.stack = stk1 → c.ip = ip1 + bb.length →
      execData' m fr c ip1 op args = ({ c with stack := st', ip := ip' }, .running)) :
    runN m 1 (advS s ip1 stk1) = (advS s ip' st', .running) := by
  have := exec1 (s := advS s ip1 stk1) (fr := fr) (frs := frs) (by simpa using hfr) (by simpa using hc) he hwf hctl _
    (hx { (advS s ip1 stk1).toCore with ip := ip1 + bb.length } rfl rfl)
  rw [this]; rfl

/-- the pure expression fragment: integer and boolean literals, variables, unary minus and `not`,
    the eleven strict binary operators, short-circuit `and` / `or` -/
inductive PureE : Expr → Prop
  | num (v : Int) : PureE (.num v)
  | bool (b : Bool) : PureE (.bool b)
  | ident (x : String) : PureE (.ident x)
  | neg (a : Expr) : PureE a → PureE (.prefixOp .T_MINUS [a])
  | not (a : Expr) : PureE a → PureE (.prefixOp .T_NOT [a])
  | strict (op : TT) (o : Opc) (a b : Expr) : binOpc op = some o → PureE a → PureE b → PureE (.prefixOp op [a, b])
  | and (a b : Expr) : PureE a → PureE b → PureE (.prefixOp .T_AND [a, b])
  | or (a b : Expr) : PureE a → PureE b → PureE (.prefixOp .T_OR [a, b])

/-- code generation for the fragment adds no strings and no locals -/
theorem cExpr_pure_cs (ce : CE) (e : Expr) (hp : PureE e) :
    ∀ (cs cs' : CS) (code : List PI), cExpr ce cs e = .ok (cs', code) → cs' = cs := by
  induction hp with
  | num v => intro cs cs' code h; rw [cExpr_num] at h; cases h; rfl
  | bool b => intro cs cs' code h; rw [cExpr_bool] at h; cases h; rfl
  | ident x =>
    intro cs cs' code h
    rw [cExpr] at h
    split at h
    · cases h; rfl
    · split at h
      · cases h; rfl
      · split at h
        · cases h; rfl
        · cases h
  | neg a _ ih =>
    intro cs cs' code h
    cases ha : cExpr ce cs a with
    | error e => rw [cExpr_un_err ce cs _ a e ha] at h; cases h
    | ok r => obtain ⟨cs1, ca⟩ := r; rw [cExpr_neg ce cs cs1 a ca ha] at h; cases h; exact ih cs _ ca ha
  | not a _ ih =>
    intro cs cs' code h
    cases ha : cExpr ce cs a with
    | error e => rw [cExpr_un_err ce cs _ a e ha] at h; cases h
    | ok r => obtain ⟨cs1, ca⟩ := r; rw [cExpr_not ce cs cs1 a ca ha] at h; cases h; exact ih cs _ ca ha
  | strict op o a b ho _ _ iha ihb =>
    intro cs cs' code h
    cases ha : cExpr ce cs a with
    | error e => rw [cExpr_bin_err1 ce cs op a b e ha] at h; cases h
    | ok r =>
      obtain ⟨cs1, ca⟩ := r
      cases hb : cExpr ce cs1 b with
      | error e => rw [cExpr_bin_err2 ce cs cs1 op a b ca e ha hb] at h; cases h
      | ok r2 =>
        obtain ⟨cs2, cb⟩ := r2
        rw [cExpr_strict ce cs cs1 cs2 op o a b ca cb ha hb ho] at h
        cases h
        rw [ihb cs1 _ cb hb]; exact iha cs _ ca ha
  | and a b _ _ iha ihb =>
    intro cs cs' code h
    cases ha : cExpr ce cs a with
    | error e => rw [cExpr_bin_err1 ce cs _ a b e ha] at h; cases h
    | ok r =>
      obtain ⟨cs1, ca⟩ := r
      cases hb : cExpr ce cs1 b with
      | error e => rw [cExpr_bin_err2 ce cs cs1 _ a b ca e ha hb] at h; cases h
      | ok r2 =>
        obtain ⟨cs2, cb⟩ := r2
        rw [cExpr_and ce cs cs1 cs2 a b ca cb ha hb] at h
        cases h
        rw [ihb cs1 _ cb hb]; exact iha cs _ ca ha
  | or a b _ _ iha ihb =>
    intro cs cs' code h
    cases ha : cExpr ce cs a with
    | error e => rw [cExpr_bin_err1 ce cs _ a b e ha] at h; cases h
    | ok r =>
      obtain ⟨cs1, ca⟩ := r
      cases hb : cExpr ce cs1 b with
      | error e => rw [cExpr_bin_err2 ce cs cs1 _ a b ca e ha hb] at h; cases h
      | ok r2 =>
        obtain ⟨cs2, cb⟩ := r2
        rw [cExpr_or ce cs cs1 cs2 a b ca cb ha hb] at h
        cases h
        rw [ihb cs1 _ cb hb]; exact iha cs _ ca ha

theorem CodeAt.bound {m : Module} {f ip : Nat} {bs : Bytes} (h : CodeAt m f ip bs) : ip + bs.length < 2147483648 := by
  obtain ⟨⟨fn, _, _, h3, h4, h5⟩, _⟩ := h
  omega

theorem push_as_with (c : Core) (stk : List Val) (v : Val) (h : c.stack = stk) : c.push v = { c with stack := stk ++ [v] } := by
  unfold Core.push; rw [h]

theorem ip_as_with (c : Core) (stk : List Val) (x : Nat) (h : c.stack = stk) : ({ c with ip := x } : Core) = { c with stack := stk, ip := x } := by
  subst h; rfl

/-- short-circuit `and` / `or`: `isAnd` selects the jump and the constant -/
theorem sim_logic (m : Module) (ce : CE) (p : Program) (isAnd : Bool) (a b : Expr) (hpb : PureE b)
    (iha : SimE m ce p a) (ihb : SimE m ce p b) : SimE m ce p (.prefixOp (if isAnd then .T_AND else .T_OR) [a, b]) := by
  intro cs cs' code fuel loc g g' w s fr frs bs hc hs hfr he hca henv
  cases hca' : cExpr ce cs a with
  | error e => rw [cExpr_bin_err1 ce cs _ a b e hca'] at hc; cases hc
  | ok r =>
    obtain ⟨cs1, ca⟩ := r
    cases hcb' : cExpr ce cs1 b with
    | error e => rw [cExpr_bin_err2 ce cs cs1 _ a b ca e hca' hcb'] at hc; cases hc
    | ok r2 =>
      obtain ⟨cs2, cb⟩ := r2
      obtain rfl : cs1 = cs2 := (cExpr_pure_cs ce b hpb cs1 cs2 cb hcb').symm
      have hcode : code = ca ++ [ins (if isAnd then .JMP_FALSE else .JMP_TRUE) [pat32 (5 + codeSize cb + 1 + 5)]] ++ cb ++
          [ins .CAST_BOOL, ins .JMP [pat32 (5 + 2)], ins .PUSH_BOOL [if isAnd then 0 else 1]] ∧ cs1 = cs' := by
        cases isAnd <;> simp only [Bool.false_eq_true, if_false, if_true] at hc ⊢
        · rw [cExpr_or ce cs cs1 cs1 a b ca cb hca' hcb'] at hc
          simp only [Except.ok.injEq, Prod.mk.injEq] at hc
          exact ⟨hc.2.symm, hc.1⟩
        · rw [cExpr_and ce cs cs1 cs1 a b ca cb hca' hcb'] at hc
          simp only [Except.ok.injEq, Prod.mk.injEq] at hc
          exact ⟨hc.2.symm, hc.1⟩
      obtain ⟨rfl, rfl⟩ := hcode
      -- the bytes, segment by segment
      obtain ⟨b123, btail, hb123, hbtail, rfl⟩ := encodeAll_append _ _ _ he
      obtain ⟨b12, bb, hb12, hbb, rfl⟩ := encodeAll_append _ _ _ hb123
      obtain ⟨ba, bj, hba, hbj, rfl⟩ := encodeAll_append _ _ _ hb12
      have hbtail' : encodeAll ([ins .CAST_BOOL] ++ ([ins .JMP [pat32 (5 + 2)]] ++ [ins .PUSH_BOOL [if isAnd then 0 else 1]])) = some btail := hbtail
      obtain ⟨bc, bmp, hbc, hbmp, rfl⟩ := encodeAll_append _ _ _ hbtail'
      obtain ⟨bm, bp, hbm, hbp, rfl⟩ := encodeAll_append _ _ _ hbmp
      have lj : bj.length = 5 := by rw [single_length _ _ _ hbj]; cases isAnd <;> rfl
      have lc : bc.length = 1 := by rw [single_length _ _ _ hbc]; rfl
      have lm : bm.length = 5 := by rw [single_length _ _ _ hbm]; rfl
      have lp : bp.length = 2 := by rw [single_length _ _ _ hbp]; rfl
      have lb : bb.length = codeSize cb := encodeAll_length _ _ hbb
      have hbound := hca.bound
      have hca2 : CodeAt m s.curFn s.ip (ba ++ (bj ++ (bb ++ (bc ++ (bm ++ bp))))) := by
        simpa [List.append_assoc] using hca
      simp only [List.length_append] at hbound
      have hd : (5 + (codeSize cb : Int) + 1 + 5) = ((5 + codeSize cb + 1 + 5 : Nat) : Int) := by omega
      rw [hd] at hbj
      have h7 : pat32 (5 + 2) = pat32 ((7 : Nat) : Int) := rfl
      rw [h7] at hbm
      have hcj : CodeAt m s.curFn (s.ip + ba.length) bj := hca2.right.left
      have hcb2 : CodeAt m s.curFn (s.ip + ba.length + bj.length) bb := hca2.right.right.left
      have hcc : CodeAt m s.curFn (s.ip + ba.length + bj.length + bb.length) bc := hca2.right.right.right.left
      have hcm : CodeAt m s.curFn (s.ip + ba.length + bj.length + bb.length + bc.length) bm := hca2.right.right.right.right.left
      have hcp : CodeAt m s.curFn (s.ip + ba.length + (5 + codeSize cb + 1 + 5)) bp := by
        have h := hca2.right.right.right.right.right
        have e : s.ip + ba.length + bj.length + bb.length + bc.length + bm.length = s.ip + ba.length + (5 + codeSize cb + 1 + 5) := by omega
        rw [e] at h; exact h
      have hend : s.ip + ba.length + (5 + codeSize cb + 1 + 5) + bp.length =
          s.ip + (ba.length + bj.length + bb.length + (bc.length + (bm.length + bp.length))) := by omega
      have hwfj : Instr.wf ⟨(if isAnd then Opc.JMP_FALSE else Opc.JMP_TRUE).toByte, [pat32 ((5 + codeSize cb + 1 + 5 : Nat) : Int)]⟩ := by
        cases isAnd
        · exact wf1 _ .i32 _ (by decide) (by show _ < 256 ^ 4; exact pat32_lt _)
        · exact wf1 _ .i32 _ (by decide) (by show _ < 256 ^ 4; exact pat32_lt _)
      have hctlj : Opc.isControl (if isAnd then Opc.JMP_FALSE else Opc.JMP_TRUE) = false := by cases isAnd <;> rfl
      have hpushc : ((if isAnd then 0 else 1 : Nat) != 0) = !isAnd := by cases isAnd <;> rfl
      cases fuel with
      | zero => simp [Sem.evalExpr] at hs
      | succ f =>
        cases hea : Sem.evalExpr Sem.vmCfg p f loc g a with
        | error er => cases isAnd <;> simp [Sem.evalExpr, hea] at hs
        | ok ra =>
          obtain ⟨wa, g1⟩ := ra
          obtain ⟨rfl, rfl, va, n1, hva, hrun1⟩ :=
            iha cs cs1 ca f loc g g1 wa s fr frs ba hca' hea hfr hba hca2.left henv
          cases wa with
          | bool x =>
            have := hva.of_bool; subst this
            -- does the left operand decide?  (false for `and`, true for `or`)
            by_cases hx : x = !isAnd
            · -- decided: jump to the constant
              subst hx
              have hw : w = .bool (!isAnd) ∧ g' = g1 := by
                cases isAnd <;> simp [Sem.evalExpr, hea] at hs <;> exact ⟨hs.1.symm, hs.2.symm⟩
              obtain ⟨rfl, rfl⟩ := hw
              refine ⟨rfl, rfl, .bool (!isAnd), n1 + (1 + 1), VRel.bool _, ?_⟩
              rw [runN_add m n1 (1 + 1) s _ hrun1]
              have hj : runN m 1 (advS s (s.ip + ba.length) (s.stack ++ [.bool (!isAnd)])) =
                  (advS s (s.ip + ba.length + (5 + codeSize cb + 1 + 5)) s.stack, .running) := by
                apply exec1_jmp (s.ip + ba.length) _ _ s.stack hfr hcj hbj hwfj hctlj
                intro c hcst hcip
                cases isAnd <;> simp only [Bool.false_eq_true, if_false, if_true, Bool.not_false, Bool.not_true] at hcst ⊢
                · rw [ed_jmp_true m fr c _ _ s.stack true (by omega) hcst]; rfl
                · rw [ed_jmp_false m fr c _ _ s.stack false (by omega) hcst]; rfl
              rw [runN_add m 1 1 _ _ hj]
              rw [exec1_adv _ s.stack (s.stack ++ [.bool (!isAnd)]) hfr hcp hbp
                (wf1 _ .u8 _ (by decide) (by cases isAnd <;> decide)) rfl
                (fun c hcst => by rw [ed_push_bool, hpushc]; exact congrArg (·, DOutcome.running) (push_as_with c _ _ hcst))]
              have e2 : s.ip + ba.length + (5 + codeSize cb + 1 + 5) + bp.length = s.ip + (ba ++ bj ++ bb ++ (bc ++ (bm ++ bp))).length := by
                simp only [List.length_append]; omega
              rw [e2]
            · -- not decided: fall through, evaluate the right operand, normalise, jump over the constant
              have hx' : x = isAnd := by cases x <;> cases isAnd <;> simp_all
              subst hx'
              cases heb : Sem.evalExpr Sem.vmCfg p f loc g1 b with
              | error er => cases x <;> simp [Sem.evalExpr, hea, heb] at hs
              | ok rb =>
                obtain ⟨wb, g2⟩ := rb
                have hj : runN m 1 (advS s (s.ip + ba.length) (s.stack ++ [.bool x])) =
                    (advS s (s.ip + ba.length + bj.length) s.stack, .running) := by
                  apply exec1_jmp (s.ip + ba.length) _ _ s.stack hfr hcj hbj hwfj hctlj
                  intro c hcst hcip
                  cases x <;> simp only [Bool.false_eq_true, if_false, if_true] at hcst ⊢
                  · rw [ed_jmp_true m fr c _ _ s.stack false (by omega) hcst, hcip]; rfl
                  · rw [ed_jmp_false m fr c _ _ s.stack true (by omega) hcst, hcip]; rfl
                obtain ⟨_, rfl, vb, n2, hvb, hrun2⟩ :=
                  ihb cs1 cs1 cb f loc g1 g2 wb (advS s (s.ip + ba.length + bj.length) s.stack) fr frs bb hcb' heb
                    (by simpa using hfr) hbb (by simpa using hcb2) (by simpa using henv)
                cases wb with
                | bool y =>
                  have := hvb.of_bool; subst this
                  have hw : w = .bool y ∧ g' = g2 := by
                    cases x <;> simp [Sem.evalExpr, hea, heb] at hs <;> exact ⟨hs.1.symm, hs.2.symm⟩
                  obtain ⟨rfl, rfl⟩ := hw
                  refine ⟨rfl, rfl, .bool y, n1 + (1 + (n2 + (1 + 1))), VRel.bool _, ?_⟩
                  rw [runN_add m n1 _ s _ hrun1, runN_add m 1 _ _ _ hj, runN_add m n2 _ _ _ hrun2]
                  simp only [advS_ip, advS_stack, advS_advS]
                  have hcast : runN m 1 (advS s (s.ip + ba.length + bj.length + bb.length) (s.stack ++ [.bool y])) =
                      (advS s (s.ip + ba.length + bj.length + bb.length + bc.length) (s.stack ++ [.bool y]), .running) :=
                    exec1_adv _ _ _ hfr hcc hbc (wf0 _ (by decide)) rfl (fun c hcst => ed_cast_bool m fr c _ s.stack y hcst)
                  rw [runN_add m 1 1 _ _ hcast]
                  have hjm : runN m 1 (advS s (s.ip + ba.length + bj.length + bb.length + bc.length) (s.stack ++ [Val.bool y])) =
                      (advS s (s.ip + ba.length + bj.length + bb.length + bc.length + 7) (s.stack ++ [Val.bool y]), .running) :=
                    exec1_jmp (s.ip + ba.length + bj.length + bb.length + bc.length)
                      (s.ip + ba.length + bj.length + bb.length + bc.length + 7) (s.stack ++ [Val.bool y]) (s.stack ++ [Val.bool y]) hfr hcm hbm
                      (wf1 _ .i32 _ (by decide) (by show _ < 256 ^ 4; exact pat32_lt _)) rfl
                      (fun c hcst _ => by rw [ed_jmp m fr c _ 7 (by omega)]; exact congrArg (·, DOutcome.running) (ip_as_with c _ _ hcst))
                  rw [hjm]
                  have e : s.ip + ba.length + bj.length + bb.length + bc.length + 7 =
                      s.ip + (ba ++ bj ++ bb ++ (bc ++ (bm ++ bp))).length := by
                    simp only [List.length_append]; omega
                  rw [e]
                | _ => cases x <;> simp [Sem.evalExpr, hea, heb] at hs
          | _ => cases isAnd <;> simp [Sem.evalExpr, hea] at hs

/-- **simulation for the whole fragment**, by induction over the expression -/
theorem cExpr_sim (m : Module) (ce : CE) (p : Program) (e : Expr) (hp : PureE e) : SimE m ce p e := by
  induction hp with
  | num v => exact sim_num m ce p v
  | bool b => exact sim_bool m ce p b
  | ident x => exact sim_ident m ce p x
  | neg a _ ih => exact sim_neg m ce p a ih
  | not a _ ih => exact sim_not m ce p a ih
  | strict op o a b ho _ _ iha ihb => exact sim_strict m ce p op o ho a b iha ihb
  | and a b _ hb iha ihb => exact sim_logic m ce p true a b hb iha ihb
  | or a b _ hb iha ihb => exact sim_logic m ce p false a b hb iha ihb

end NanoVerif
