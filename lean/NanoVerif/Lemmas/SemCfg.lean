/-
The two configurations of the reference semantics (native: division by zero faults; VM: it yields 0)
agree on every construct of the language until the native one meets a division-by-zero fault.
Helper lemmas for Props/C01.lean (`reference_cfgs_agree`).
-/
import NanoVerif.Model.Sem

namespace NanoVerif.Sem
open NanoVerif Gen
set_option linter.unusedVariables false

/-- the first outcome equals the second, or the first run stopped with the fault `fl` -/
def Ag {α : Type} (fl : Fault) (a b : Except (Fault × GState) α) : Prop := a = b ∨ ∃ g, a = .error (fl, g)

/-- the same for operator applications under two configurations -/
def BinAg (c1 c2 : Cfg) (fl : Fault) : Prop :=
  ∀ (op : TT) (a b : SVal), binArith c1 op a b = binArith c2 op a b ∨ binArith c1 op a b = .error fl

theorem binArith_ag : BinAg nativeCfg vmCfg .divZero := by
  intro op a b
  unfold binArith
  split <;> simp [nativeCfg, vmCfg] <;> split <;> simp_all

theorem binArith_same (c : Cfg) (fl : Fault) : BinAg c c fl := fun _ _ _ => Or.inl rfl

/-- the eight statements for one pair of configurations and fuel levels -/
structure AgAll (p : Program) (c1 c2 : Cfg) (fl : Fault) (n m : Nat) : Prop where
  expr : ∀ loc g e, Ag fl (evalExpr c1 p n loc g e) (evalExpr c2 p m loc g e)
  args : ∀ loc g es, Ag fl (evalArgs c1 p n loc g es) (evalArgs c2 p m loc g es)
  fields : ∀ loc g ds fn vs, Ag fl (evalFields c1 p n loc g ds fn vs) (evalFields c2 p m loc g ds fn vs)
  stmt : ∀ loc g s, Ag fl (execStmt c1 p n loc g s) (execStmt c2 p m loc g s)
  block : ∀ loc g ss, Ag fl (execBlock c1 p n loc g ss) (execBlock c2 p m loc g ss)
  stmts : ∀ loc g ss, Ag fl (execStmts c1 p n loc g ss) (execStmts c2 p m loc g ss)
  whileL : ∀ loc g c b, Ag fl (execWhile c1 p n loc g c b) (execWhile c2 p m loc g c b)
  forL : ∀ loc g v xs b, Ag fl (execFor c1 p n loc g v xs b) (execFor c2 p m loc g v xs b)

/-- use an agreement fact for the scrutinee of the outermost match on both sides: in the faulting case
    the goal closes, in the other the native scrutinee is rewritten to the VM one -/
macro "ag_use " h:term : tactic =>
  `(tactic| (have hh := $h; rcases hh with hag | ⟨gdz, hag⟩; rotate_left; (rw [hag]; exact Or.inr ⟨gdz, rfl⟩); rw [hag]))

theorem ag_args_succ (p : Program) (c1 c2 : Cfg) (fl : Fault) (hbin : BinAg c1 c2 fl) (n m : Nat) (ih : AgAll p c1 c2 fl n m) :
    ∀ loc g es, Ag fl (evalArgs c1 p (n+1) loc g es) (evalArgs c2 p (m+1) loc g es) := by
  intro loc g es
  cases es with
  | nil => simp only [evalArgs]; exact Or.inl rfl
  | cons a r =>
    simp only [evalArgs]
    ag_use (ih.expr loc g a)
    cases hv : evalExpr c2 p m loc g a with
    | error er => exact Or.inl rfl
    | ok r1 =>
      obtain ⟨v, g1⟩ := r1
      simp only []
      ag_use (ih.args loc g1 r)
      exact Or.inl rfl


theorem ag_fields_succ (p : Program) (c1 c2 : Cfg) (fl : Fault) (hbin : BinAg c1 c2 fl) (n m : Nat) (ih : AgAll p c1 c2 fl n m) :
    ∀ loc g ds fn vs, Ag fl (evalFields c1 p (n+1) loc g ds fn vs) (evalFields c2 p (m+1) loc g ds fn vs) := by
  intro loc g ds fn vs
  cases ds with
  | nil => simp only [evalFields]; exact Or.inl rfl
  | cons d ds =>
    simp only [evalFields]
    cases hp : Option.map (fun x => x.2) (List.find? (fun x => x.1 == d) (fn.zip vs)) with
    | none =>
      simp only []
      ag_use (ih.fields loc g ds fn vs)
      exact Or.inl rfl
    | some e =>
      simp only []
      ag_use (ih.expr loc g e)
      cases hv : evalExpr c2 p m loc g e with
      | error er => exact Or.inl rfl
      | ok r1 =>
        obtain ⟨v, g1⟩ := r1
        simp only []
        ag_use (ih.fields loc g1 ds fn vs)
        exact Or.inl rfl

theorem ag_block_succ (p : Program) (c1 c2 : Cfg) (fl : Fault) (hbin : BinAg c1 c2 fl) (n m : Nat) (ih : AgAll p c1 c2 fl n m) :
    ∀ loc g ss, Ag fl (execBlock c1 p (n+1) loc g ss) (execBlock c2 p (m+1) loc g ss) := by
  intro loc g ss
  simp only [execBlock]
  ag_use (ih.stmts loc g ss)
  exact Or.inl rfl

theorem ag_stmts_succ (p : Program) (c1 c2 : Cfg) (fl : Fault) (hbin : BinAg c1 c2 fl) (n m : Nat) (ih : AgAll p c1 c2 fl n m) :
    ∀ loc g ss, Ag fl (execStmts c1 p (n+1) loc g ss) (execStmts c2 p (m+1) loc g ss) := by
  intro loc g ss
  cases ss with
  | nil => simp only [execStmts]; exact Or.inl rfl
  | cons s r =>
    simp only [execStmts]
    ag_use (ih.stmt loc g s)
    cases hv : execStmt c2 p m loc g s with
    | error er => exact Or.inl rfl
    | ok r1 =>
      obtain ⟨fl, loc1, g1⟩ := r1
      cases fl <;> first | exact ih.stmts _ _ _ | exact Or.inl rfl

theorem ag_while_succ (p : Program) (c1 c2 : Cfg) (fl : Fault) (hbin : BinAg c1 c2 fl) (n m : Nat) (ih : AgAll p c1 c2 fl n m) :
    ∀ loc g c b, Ag fl (execWhile c1 p (n+1) loc g c b) (execWhile c2 p (m+1) loc g c b) := by
  intro loc g c b
  simp only [execWhile]
  ag_use (ih.expr loc g c)
  cases hv : evalExpr c2 p m loc g c with
  | error er => exact Or.inl rfl
  | ok r1 =>
    obtain ⟨v, g1⟩ := r1
    cases v <;> try (exact Or.inl rfl)
    rename_i bb
    cases bb
    · exact Or.inl rfl
    · simp only []
      ag_use (ih.block loc g1 b)
      cases hb : execBlock c2 p m loc g1 b with
      | error er => exact Or.inl rfl
      | ok r2 =>
        obtain ⟨fl, loc1, g2⟩ := r2
        cases fl <;> first | exact ih.whileL _ _ _ _ | exact Or.inl rfl

theorem ag_for_succ (p : Program) (c1 c2 : Cfg) (fl : Fault) (hbin : BinAg c1 c2 fl) (n m : Nat) (ih : AgAll p c1 c2 fl n m) :
    ∀ loc g v xs b, Ag fl (execFor c1 p (n+1) loc g v xs b) (execFor c2 p (m+1) loc g v xs b) := by
  intro loc g v xs b
  cases xs with
  | nil => simp only [execFor]; exact Or.inl rfl
  | cons x xs =>
    simp only [execFor]
    ag_use (ih.block ((v, x) :: loc) g b)
    cases hb : execBlock c2 p m ((v, x) :: loc) g b with
    | error er => exact Or.inl rfl
    | ok r2 =>
      obtain ⟨fl, loc1, g2⟩ := r2
      cases fl <;> first | exact ih.forL _ _ _ _ _ | exact Or.inl rfl

theorem ag_stmt_succ (p : Program) (c1 c2 : Cfg) (fl : Fault) (hbin : BinAg c1 c2 fl) (n m : Nat) (ih : AgAll p c1 c2 fl n m) :
    ∀ loc g s, Ag fl (execStmt c1 p (n+1) loc g s) (execStmt c2 p (m+1) loc g s) := by
  intro loc g s
  cases s with
  | letS x m t e =>
    simp only [execStmt]; ag_use (ih.expr loc g e); exact Or.inl rfl
  | setS x e =>
    simp only [execStmt]; ag_use (ih.expr loc g e); exact Or.inl rfl
  | ifS c t els ei =>
    simp only [execStmt]
    ag_use (ih.expr loc g c)
    cases hv : evalExpr c2 p m loc g c with
    | error er => exact Or.inl rfl
    | ok r1 =>
      obtain ⟨v, g1⟩ := r1
      cases v <;> try (exact Or.inl rfl)
      rename_i bb
      cases bb
      · cases els with
        | none => exact Or.inl rfl
        | some eb => exact ih.block _ _ _
      · exact ih.block _ _ _
  | whileS c b => simp only [execStmt]; exact ih.whileL _ _ _ _
  | forS v rg b =>
    simp only [execStmt]
    ag_use (ih.expr loc g rg)
    cases hv : evalExpr c2 p m loc g rg with
    | error er => exact Or.inl rfl
    | ok r1 =>
      obtain ⟨w, g1⟩ := r1
      cases w <;> first | exact ih.forL _ _ _ _ _ | exact Or.inl rfl
  | ret oe =>
    cases oe with
    | none => simp only [execStmt]; exact Or.inl rfl
    | some e => simp only [execStmt]; ag_use (ih.expr loc g e); exact Or.inl rfl
  | breakS => simp only [execStmt]; exact Or.inl rfl
  | continueS => simp only [execStmt]; exact Or.inl rfl
  | printS ln e => simp only [execStmt]; ag_use (ih.expr loc g e); exact Or.inl rfl
  | assertS e => simp only [execStmt]; ag_use (ih.expr loc g e); exact Or.inl rfl
  | exprS e => simp only [execStmt]; ag_use (ih.expr loc g e); exact Or.inl rfl
  | block ss => simp only [execStmt]; exact ih.block _ _ _


theorem ag_expr_succ (p : Program) (c1 c2 : Cfg) (fl : Fault) (hbin : BinAg c1 c2 fl) (n m : Nat) (ih : AgAll p c1 c2 fl n m) :
    ∀ loc g e, Ag fl (evalExpr c1 p (n+1) loc g e) (evalExpr c2 p (m+1) loc g e) := by
  intro loc g e
  cases e with
  | num v => simp only [evalExpr]; exact Or.inl rfl
  | flt r => simp only [evalExpr]; exact Or.inl rfl
  | bool b => simp only [evalExpr]; exact Or.inl rfl
  | str r => simp only [evalExpr]; exact Or.inl rfl
  | ident x => simp only [evalExpr]; exact Or.inl rfl
  | tupleIdx o i => simp only [evalExpr]; exact Or.inl rfl
  | tuple es => simp only [evalExpr]; exact Or.inl rfl
  | field o fld => simp only [evalExpr]; ag_use (ih.expr loc g o); exact Or.inl rfl
  | arrayLit es => simp only [evalExpr]; ag_use (ih.args loc g es); exact Or.inl rfl
  | structLit n fn vs =>
    simp only [evalExpr]
    cases hs : findStruct p n with
    | none => exact Or.inl rfl
    | some defs => simp only []; ag_use (ih.fields loc g (defs.map (·.1)) fn vs); exact Or.inl rfl
  | call fname args =>
    simp only [evalExpr]
    ag_use (ih.args loc g args)
    cases hv : evalArgs c2 p m loc g args with
    | error er => exact Or.inl rfl
    | ok r1 =>
      obtain ⟨vs, g1⟩ := r1
      simp only []
      cases hb : builtin fname vs g1 with
      | some r => exact Or.inl rfl
      | none =>
        simp only []
        by_cases hn : isBuiltinName fname = true
        · simp only [hn, if_true]; exact Or.inl rfl
        · simp only [hn, Bool.false_eq_true, if_false]
          cases hf : findFn p fname with
          | none => exact Or.inl rfl
          | some pb =>
            obtain ⟨ps, body⟩ := pb
            simp only []
            by_cases hl : (ps.length != vs.length) = true
            · simp only [hl, if_true]; exact Or.inl rfl
            · simp only [hl, Bool.false_eq_true, if_false]
              ag_use (ih.stmts ((ps.map (·.name)).zip vs).reverse g1 body)
              exact Or.inl rfl
  | prefixOp op args =>
    match args with
    | [] => simp only [evalExpr]; exact Or.inl rfl
    | [a] => simp only [evalExpr]; ag_use (ih.expr loc g a); exact Or.inl rfl
    | a :: b :: c :: r => simp only [evalExpr]; exact Or.inl rfl
    | [a, b] =>
      simp only [evalExpr]
      ag_use (ih.expr loc g a)
      cases hv : evalExpr c2 p m loc g a with
      | error er => exact Or.inl rfl
      | ok r1 =>
        obtain ⟨va, g1⟩ := r1
        simp only []
        by_cases hand : (op == TT.T_AND) = true
        · simp only [hand, if_true]
          cases va <;> try (exact Or.inl rfl)
          rename_i bb
          cases bb
          · exact Or.inl rfl
          · simp only []; ag_use (ih.expr loc g1 b); exact Or.inl rfl
        · simp only [hand, Bool.false_eq_true, if_false]
          by_cases hor : (op == TT.T_OR) = true
          · simp only [hor, if_true]
            cases va <;> try (exact Or.inl rfl)
            rename_i bb
            cases bb
            · simp only []; ag_use (ih.expr loc g1 b); exact Or.inl rfl
            · exact Or.inl rfl
          · simp only [hor, Bool.false_eq_true, if_false]
            ag_use (ih.expr loc g1 b)
            cases hw : evalExpr c2 p m loc g1 b with
            | error er => exact Or.inl rfl
            | ok r2 =>
              obtain ⟨vb, g2⟩ := r2
              simp only []
              rcases hbin op va vb with h | h
              · rw [h]; exact Or.inl rfl
              · rw [h]; exact Or.inr ⟨g2, rfl⟩

theorem agAll (p : Program) : ∀ fuel, AgAll p nativeCfg vmCfg .divZero fuel fuel := by
  intro fuel
  induction fuel with
  | zero =>
    refine ⟨?_, ?_, ?_, ?_, ?_, ?_, ?_, ?_⟩ <;> intros <;>
      simp only [evalExpr, evalArgs, evalFields, execStmt, execBlock, execStmts, execWhile, execFor] <;>
      exact Or.inl rfl
  | succ f ih =>
    exact ⟨ag_expr_succ p _ _ _ binArith_ag f f ih, ag_args_succ p _ _ _ binArith_ag f f ih,
           ag_fields_succ p _ _ _ binArith_ag f f ih, ag_stmt_succ p _ _ _ binArith_ag f f ih,
           ag_block_succ p _ _ _ binArith_ag f f ih, ag_stmts_succ p _ _ _ binArith_ag f f ih,
           ag_while_succ p _ _ _ binArith_ag f f ih, ag_for_succ p _ _ _ binArith_ag f f ih⟩

/-- one more unit of fuel changes nothing unless the run had stopped for want of fuel -/
theorem fuelAll (p : Program) (c : Cfg) : ∀ fuel, AgAll p c c .fuel fuel (fuel + 1) := by
  intro fuel
  induction fuel with
  | zero =>
    refine ⟨?_, ?_, ?_, ?_, ?_, ?_, ?_, ?_⟩ <;> intros <;> refine Or.inr ⟨‹GState›, ?_⟩ <;>
      simp only [evalExpr, evalArgs, evalFields, execStmt, execBlock, execStmts, execWhile, execFor]
  | succ f ih =>
    have hb := binArith_same c .fuel
    exact ⟨ag_expr_succ p _ _ _ hb f (f+1) ih, ag_args_succ p _ _ _ hb f (f+1) ih,
           ag_fields_succ p _ _ _ hb f (f+1) ih, ag_stmt_succ p _ _ _ hb f (f+1) ih,
           ag_block_succ p _ _ _ hb f (f+1) ih, ag_stmts_succ p _ _ _ hb f (f+1) ih,
           ag_while_succ p _ _ _ hb f (f+1) ih, ag_for_succ p _ _ _ hb f (f+1) ih⟩

theorem initGlobals_ag (p : Program) (c1 c2 : Cfg) (fl : Fault) (n m : Nat) (hall : AgAll p c1 c2 fl n m)
    (items : List Item) (g : GState) :
    initGlobals c1 p n items g = initGlobals c2 p m items g ∨
    ∃ g', initGlobals c1 p n items g = .error (fl, g') := by
  induction items generalizing g with
  | nil => exact Or.inl rfl
  | cons it r ih =>
    cases it with
    | glet name mt t e =>
      simp only [initGlobals]
      have hh := hall.expr [] g e
      rcases hh with hag | ⟨gdz, hag⟩
      · rw [hag]
        cases hv : evalExpr c2 p m [] g e with
        | error er => exact Or.inl rfl
        | ok r1 => obtain ⟨v, g1⟩ := r1; exact ih _
      · rw [hag]; exact Or.inr ⟨gdz, rfl⟩
    | fn _ _ _ _ => simp only [initGlobals]; exact ih g
    | shadow _ _ => simp only [initGlobals]; exact ih g
    | structDef _ _ => simp only [initGlobals]; exact ih g
    | enumDef _ _ => simp only [initGlobals]; exact ih g

theorem runProgram_gen (p : Program) (c1 c2 : Cfg) (fl : Fault) (n m : Nat) (hall : AgAll p c1 c2 fl n m)
    (h : (runProgram c1 p n).res ≠ .fault fl) :
    runProgram c1 p n = runProgram c2 p m := by
  unfold runProgram at *
  rcases initGlobals_ag p c1 c2 fl n m hall p {} with hi | ⟨g', hi⟩
  · rw [hi] at h ⊢
    cases hg : initGlobals c2 p m p {} with
    | error er => rfl
    | ok g0 =>
      rw [hg] at h
      simp only [] at h ⊢
      rcases hall.expr [] g0 (.call "main" []) with hm | ⟨g', hm⟩
      · rw [hm]
      · rw [hm] at h; exact absurd rfl h
  · rw [hi] at h; exact absurd rfl h

/-- whole programs: the two configurations show the same thing unless the native one faults on a zero divisor -/
theorem runProgram_ag (p : Program) (fuel : Nat)
    (h : (runProgram nativeCfg p fuel).res ≠ .fault .divZero) :
    runProgram nativeCfg p fuel = runProgram vmCfg p fuel :=
  runProgram_gen p _ _ _ fuel fuel (agAll p fuel) h

/-- whole programs: an outcome other than "not decided by this much fuel" is the outcome for every larger fuel -/
theorem runProgram_fuel_mono (p : Program) (c : Cfg) (fuel : Nat)
    (h : (runProgram c p fuel).res ≠ .fault .fuel) (k : Nat) :
    runProgram c p (fuel + k) = runProgram c p fuel := by
  induction k with
  | zero => rfl
  | succ k ih =>
    have h' : (runProgram c p (fuel + k)).res ≠ .fault .fuel := by rw [ih]; exact h
    have := runProgram_gen p c c .fuel (fuel + k) (fuel + k + 1) (fuelAll p c (fuel + k)) h'
    rw [← ih, this]; rfl

end NanoVerif.Sem
