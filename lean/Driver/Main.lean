import Driver.Cmd
open NanoVerif

partial def loop (h : IO.FS.Stream) (out : IO.FS.Stream) : IO Unit := do
  let line ← h.getLine
  if line.isEmpty then return ()
  let l := line.trimAscii.toString
  if l.isEmpty then
    out.putStrLn ""
  else
    out.putStrLn (Driver.handle l).trimAscii.toString
  loop h out

def main : IO Unit := do
  let stdin ← IO.getStdin
  let stdout ← IO.getStdout
  loop stdin stdout
  stdout.flush
