import NanoVerif.Model.Isa
import NanoVerif.Model.Nvm
namespace NanoVerif.Driver

def natList (ws : List String) : Option (List Nat) := ws.mapM String.toNat?

def joinNat (ns : List Nat) : String := " ".intercalate (ns.map toString)

def isaDec (hex : String) : String :=
  match ofHex hex with
  | none => "bad-op"
  | some bs =>
    match decode bs with
    | none => "err"
    | some (i, n) => s!"ok {i.opcode} {n}" ++ (if i.operands.isEmpty then "" else " " ++ joinNat i.operands)

def isaEnc (ws : List String) : String :=
  match natList ws with
  | some (op :: bufSize :: vs) =>
    match encodeBuf { opcode := op, operands := vs } bufSize with
    | none => "err"
    | some bs => "ok " ++ (if bs.isEmpty then "-" else toHex bs)
  | _ => "bad-op"

def isaInfo (ws : List String) : String :=
  match natList ws with
  | some [b] =>
    match lookup b with
    | none => "none"
    | some info => s!"{info.name} {info.operands.length} " ++ joinNat (info.operands.map Gen.operandSize)
  | _ => "bad-op"

def hexOr (bs : Bytes) : String := if bs.isEmpty then "-" else toHex bs

def moduleText (m : Module) : String :=
  s!"f={m.flags};e={m.entryPoint};s=" ++ ",".intercalate (m.strings.map hexOr)
  ++ ";c=" ++ hexOr m.code
  ++ ";fn=" ++ ",".intercalate (m.functions.map fun f =>
      s!"{f.nameIdx}.{f.arity}.{f.codeOffset}.{f.codeLength}.{f.localCount}.{f.upvalueCount}")
  ++ ";d=" ++ ",".intercalate (m.debug.map fun d => s!"{d.bytecodeOffset}.{d.sourceLine}")
  ++ ";i=" ++ ",".intercalate (m.imports.map fun i =>
      s!"{i.moduleNameIdx}.{i.functionNameIdx}.{i.paramCount}.{i.returnType}." ++
        (match i.paramTypes with | some pt => hexOr pt | none => "N"))

def items (v : String) : List String := (v.splitOn ",").filter (· ≠ "")

def parseField (m : Module) (fld : String) : Option Module :=
  match fld.splitOn "=" with
  | ["f", v] => v.toNat?.map fun n => { m with flags := n % 4294967296 }
  | ["e", v] => v.toNat?.map fun n => { m with entryPoint := n % 4294967296 }
  | ["c", v] => (ofHex (if v.isEmpty then "-" else v)).map fun b => { m with code := m.code ++ b }
  | ["s", v] => (items v).foldlM (fun m it => (ofHex it).map fun b => { m with strings := (addString m.strings b).1 }) m
  | ["fn", v] => (items v).foldlM (fun m it =>
      match (it.splitOn ".").mapM String.toNat? with
      | some [a, b, c, d, e, f] => some { m with functions := m.functions ++
          [{ nameIdx := a % 4294967296, arity := b % 65536, codeOffset := c % 4294967296,
             codeLength := d % 4294967296, localCount := e % 65536, upvalueCount := f % 65536 }] }
      | _ => none) m
  | ["d", v] => (items v).foldlM (fun m it =>
      match (it.splitOn ".").mapM String.toNat? with
      | some [a, b] => some { m with debug := m.debug ++ [{ bytecodeOffset := a, sourceLine := b }] }
      | _ => none) m
  | ["i", v] => (items v).foldlM (fun m it =>
      match it.splitOn "." with
      | [a, b, c, d, pt] =>
        match a.toNat?, b.toNat?, c.toNat?, d.toNat? with
        | some a, some b, some c, some d =>
          if pt = "N" then some { m with imports := m.imports ++
            [{ moduleNameIdx := a, functionNameIdx := b, paramCount := c % 65536, returnType := d % 256, paramTypes := none }] }
          else (ofHex pt).bind fun p =>
            -- nvm_add_import: a table is stored only when param_count > 0
            some { m with imports := m.imports ++
              [{ moduleNameIdx := a, functionNameIdx := b, paramCount := c % 65536, returnType := d % 256,
                 paramTypes := if c % 65536 > 0 then some p else none }] }
        | _, _, _, _ => none
      | _ => none) m
  | _ => none

def parseModule (txt : String) : Option Module :=
  (txt.splitOn ";").foldlM parseField {}

def nvmLoad (hex : String) : String :=
  match ofHex hex with
  | none => "bad-op"
  | some bs =>
    match deserialize bs with
    | .error .reject => "err"
    | .error .oob => "oob"
    | .ok m => "ok " ++ moduleText m

def nvmSer (txt : String) : String :=
  match parseModule txt with
  | none => "bad-op"
  | some m => "ok " ++ hexOr (serialize m)

def crcCmd (hex : String) : String :=
  match ofHex hex with
  | none => "bad-op"
  | some bs => toString (crc32 bs).toNat

def handle (line : String) : String :=
  match line.splitOn " " with
  | "isa.dec" :: [hex] => isaDec hex
  | "isa.enc" :: ws => isaEnc ws
  | "isa.info" :: ws => isaInfo ws
  | "crc" :: [hex] => crcCmd hex
  | "nvm.load" :: [hex] => nvmLoad hex
  | "nvm.ser" :: [txt] => nvmSer txt
  | _ => "bad-op"

end NanoVerif.Driver
