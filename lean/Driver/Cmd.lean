import NanoVerif.Model.Isa
import NanoVerif.Model.Nvm
import NanoVerif.Model.Verifier
import NanoVerif.Model.Vm
import NanoVerif.Model.Cop
import NanoVerif.Model.CopClient
import NanoVerif.Model.Gate
import NanoVerif.Model.Runtime
import NanoVerif.Model.Compile
import NanoVerif.Model.Sem
import NanoVerif.Model.Vmd
import NanoVerif.Model.Tc
namespace NanoVerif.Driver

def natList (ws : List String) : Option (List Nat) := ws.mapM String.toNat?

def joinNat (ns : List Nat) : String := " ".intercalate (ns.map toString)

def isaDec (hex : String) : String :=
  match ofHex hex with
  | none => "bad-op"
  | some bs =>
    match decode bs with
    | none => "err"
    | some (i, n) => s!"ok {i.opcode} {n}" ++ (if i.operands.isEmpty then "" else " " ++ joinNat i.operands)

def isaEnc (ws : List String) : String :=
  match natList ws with
  | some (op :: bufSize :: vs) =>
    match encodeBuf { opcode := op, operands := vs } bufSize with
    | none => "err"
    | some bs => "ok " ++ (if bs.isEmpty then "-" else toHex bs)
  | _ => "bad-op"

def isaInfo (ws : List String) : String :=
  match natList ws with
  | some [b] =>
    match lookup b with
    | none => "none"
    | some info => s!"{info.name} {info.operands.length} " ++ joinNat (info.operands.map Gen.operandSize)
  | _ => "bad-op"

def hexOr (bs : Bytes) : String := if bs.isEmpty then "-" else toHex bs

def moduleText (m : Module) : String :=
  s!"f={m.flags};e={m.entryPoint};s=" ++ ",".intercalate (m.strings.map hexOr)
  ++ ";c=" ++ hexOr m.code
  ++ ";fn=" ++ ",".intercalate (m.functions.map fun f =>
      s!"{f.nameIdx}.{f.arity}.{f.codeOffset}.{f.codeLength}.{f.localCount}.{f.upvalueCount}")
  ++ ";d=" ++ ",".intercalate (m.debug.map fun d => s!"{d.bytecodeOffset}.{d.sourceLine}")
  ++ ";i=" ++ ",".intercalate (m.imports.map fun i =>
      s!"{i.moduleNameIdx}.{i.functionNameIdx}.{i.paramCount}.{i.returnType}." ++
        (match i.paramTypes with | some pt => hexOr pt | none => "N"))

def items (v : String) : List String := (v.splitOn ",").filter (· ≠ "")

def parseField (m : Module) (fld : String) : Option Module :=
  match fld.splitOn "=" with
  | ["f", v] => v.toNat?.map fun n => { m with flags := n % 4294967296 }
  | ["e", v] => v.toNat?.map fun n => { m with entryPoint := n % 4294967296 }
  | ["c", v] => (ofHex (if v.isEmpty then "-" else v)).map fun b => { m with code := m.code ++ b }
  | ["s", v] => (items v).foldlM (fun m it => (ofHex it).map fun b => { m with strings := (addString m.strings b).1 }) m
  | ["fn", v] => (items v).foldlM (fun m it =>
      match (it.splitOn ".").mapM String.toNat? with
      | some [a, b, c, d, e, f] => some { m with functions := m.functions ++
          [{ nameIdx := a % 4294967296, arity := b % 65536, codeOffset := c % 4294967296,
             codeLength := d % 4294967296, localCount := e % 65536, upvalueCount := f % 65536 }] }
      | _ => none) m
  | ["d", v] => (items v).foldlM (fun m it =>
      match (it.splitOn ".").mapM String.toNat? with
      | some [a, b] => some { m with debug := m.debug ++ [{ bytecodeOffset := a, sourceLine := b }] }
      | _ => none) m
  | ["i", v] => (items v).foldlM (fun m it =>
      match it.splitOn "." with
      | [a, b, c, d, pt] =>
        match a.toNat?, b.toNat?, c.toNat?, d.toNat? with
        | some a, some b, some c, some d =>
          if pt = "N" then some { m with imports := m.imports ++
            [{ moduleNameIdx := a, functionNameIdx := b, paramCount := c % 65536, returnType := d % 256, paramTypes := none }] }
          else (ofHex pt).bind fun p =>
            -- nvm_add_import: a table is stored only when param_count > 0
            some { m with imports := m.imports ++
              [{ moduleNameIdx := a, functionNameIdx := b, paramCount := c % 65536, returnType := d % 256,
                 paramTypes := if c % 65536 > 0 then some p else none }] }
        | _, _, _, _ => none
      | _ => none) m
  | _ => none

def parseModule (txt : String) : Option Module :=
  (txt.splitOn ";").foldlM parseField {}

def nvmLoad (hex : String) : String :=
  match ofHex hex with
  | none => "bad-op"
  | some bs =>
    match deserialize bs with
    | .error .reject => "err"
    | .error .oob => "oob"
    | .ok m => "ok " ++ moduleText m

def nvmSer (txt : String) : String :=
  match parseModule txt with
  | none => "bad-op"
  | some m => "ok " ++ hexOr (serialize m)

def crcCmd (hex : String) : String :=
  match ofHex hex with
  | none => "bad-op"
  | some bs => toString (crc32 bs).toNat

def valText : Val → String
  | .void => "v"
  | .int n => s!"i{n.toInt}"
  | .u8 n => s!"u{n}"
  | .float b => s!"f{b.toNat}"
  | .bool b => if b then "b1" else "b0"
  | .enum v => s!"e{v}"
  | .opaque id => s!"o{id}"
  | .str a => s!"s@{a}"
  | .arr a => s!"a@{a}"
  | .struct a => s!"S@{a}"
  | .union a => s!"U@{a}"
  | .tuple a => s!"T@{a}"
  | .hmap a => s!"H@{a}"
  | .clos a => s!"C@{a}"

def heapText (h : Heap) : String :=
  " ".intercalate (h.cells.map fun (a, c) =>
    s!"{a}={c.rc}/{c.obj.kindName}[" ++ ",".intercalate (c.obj.kids.map valText) ++ "]")

def traceLine (s : VmState) : String :=
  s!"{s.ip}:{s.stack.length}:{s.frames.length}:" ++ ",".intercalate (s.stack.map valText)
    ++ ":" ++ ",".intercalate (s.globals.map valText)
    ++ ":" ++ ",".intercalate (s.frames.map fun fr => match fr.closure with | some a => s!"C@{a}" | none => "-")
    ++ ":" ++ heapText s.heap

def outcomeText : Outcome → String
  | .running => "running"
  | .done => "0"
  | .err c => toString c
  | .unsupported w => "unsupported(" ++ w.replace " " "_" ++ ")"
  | .oob w => "OOB(" ++ w.replace " " "_" ++ ")"
  | .dangling w => "DANGLING(" ++ w.replace " " "_" ++ ")"

/-- run with an optional trace of every instruction boundary -/
partial def runTrace (m : Module) (fuel : Nat) (s : VmState) (acc : Array String) (tr : Bool) : VmState × Outcome × Nat × Array String :=
  let atInstr := match m.functions[s.curFn]? with
    | some fn => s.ip < u32 (fn.codeOffset + fn.codeLength) && !s.frames.isEmpty
    | none => false
  let acc := if tr && atInstr then acc.push (traceLine s) else acc
  if atInstr && fuel == 0 then (s, .unsupported "fuel", 0, acc)
  else
    let fuel' := if atInstr then fuel - 1 else fuel
    match step m s with
    | (s', .running) => runTrace m fuel' s' acc tr
    | (s', o) => (s', o, fuel', acc)

def vmExec (m : Module) (fuel : Nat) (tr : Bool) : VmState × Outcome × Array String :=
  let s0 : VmState := {}
  if m.flags % 2 == 0 then (s0, .err Gen.vmErr_undefinedFunction, #[])
  else if m.entryPoint ≥ m.functions.length then (s0, .err Gen.vmErr_undefinedFunction, #[])
  else
    let runFn (s : VmState) (f : Nat) (fuel : Nat) (acc : Array String) : VmState × Outcome × Nat × Array String :=
      match callFunction m s f with
      | (s', .running) => runTrace m fuel s' acc tr
      | (s', o) => (s', o, fuel, acc)
    match initFn m with
    | some i =>
      match runFn s0 i fuel #[] with
      | (s1, .done, fuel', acc) => let (s2, o, _, acc) := runFn s1 m.entryPoint fuel' acc; (s2, o, acc)
      | (s1, o, _, acc) => (s1, o, acc)
    | none => let (s2, o, _, acc) := runFn s0 m.entryPoint fuel #[]; (s2, o, acc)

def vmRun (ws : List String) : String :=
  match ws with
  | [fuelS, trS, hex] =>
    match fuelS.toNat?, ofHex hex with
    | some fuel, some bs =>
      match deserialize bs with
      | .error .reject => "loaderr"
      | .error .oob => "load-oob"
      | .ok m =>
        if !verify m then "verifyfail"
        else if !m.imports.isEmpty then "has-imports"
        else
          let (s, o, acc) := vmExec m fuel (trS == "1")
          let top := match s.stack.getLast? with | some v => valText v | none => "v"
          let eip := if o == .err Gen.vmErr_decode || o == .err Gen.vmErr_invalidOpcode then s!" eip={s.ip} efn={s.curFn}" else ""
          let res := s!"R res={outcomeText o}{eip} out={hexOr s.out} top={top} live={s.heap.cells.length} dangling={s.heap.dangling}"
          if trS == "1" then "|".intercalate (acc.toList ++ [res]) else res
    | _, _ => "bad-op"
  | _ => "bad-op"

def verifyCmd (hex : String) : String :=
  match ofHex hex with
  | none => "bad-op"
  | some bs =>
    match deserialize bs with
    | .error .reject => "loaderr"
    | .error .oob => "load-oob"
    | .ok m => if verify m then "ok" else "fail"

partial def cvalText : CVal → String
  | .int n => s!"i{n}"
  | .float n => s!"f{n}"
  | .bool b => if b then "b1" else "b0"
  | .str s => "s" ++ hexOr s
  | .opaque n => s!"o{n}"
  | .void => "v"
  | .other t => s!"t{t}"
  | .arr et es => s!"a{et}.{es.length}" ++ String.join (es.map fun e => "," ++ cvalText e)

/-- prefix-form parser over the comma separated tokens -/
partial def parseCVal : List String → Option (CVal × List String)
  | [] => none
  | t :: rest =>
    let body := (t.drop 1).toString
    match t.front with
    | 'i' => body.toNat?.map fun n => (.int (n % 2^64), rest)
    | 'f' => body.toNat?.map fun n => (.float (n % 2^64), rest)
    | 'o' => body.toNat?.map fun n => (.opaque (n % 2^64), rest)
    | 'b' => some (.bool (body == "1"), rest)
    | 'v' => some (.void, rest)
    | 't' => body.toNat?.map fun n => (.other (n % 256), rest)
    | 's' => (ofHex body).map fun b => (.str b, rest)
    | 'a' =>
      match (body.splitOn ".").mapM String.toNat? with
      | some [et, cnt] =>
        let rec go (k : Nat) (ts : List String) (acc : List CVal) : Option (List CVal × List String) :=
          if k == 0 then some (acc.reverse, ts)
          else match parseCVal ts with
            | none => none
            | some (v, ts') => go (k - 1) ts' (v :: acc)
        (go cnt rest []).map fun (es, ts) => (.arr (et % 256) es, ts)
      | _ => none
    | _ => none

def copSerCmd (ws : List String) : String :=
  match ws with
  | [roomS, txt] =>
    match roomS.toNat?, parseCVal (txt.splitOn ",") with
    | some room, some (v, []) =>
      (match copSer v room with
       | none => "err"
       | some bs => "ok " ++ hexOr bs)
    | _, _ => "bad-op"
  | _ => "bad-op"

def copDeCmd (hex : String) : String :=
  match ofHex hex with
  | none => "bad-op"
  | some bs =>
    match copDe 65 bs with   -- COP_MAX_NESTING = 64: depths 0..64
    | none => "err"
    | some (v, n) => s!"ok {n} " ++ cvalText v

/-- `cop.run <sigign 0|1> <gone:replyhex,...>`: a program making one extern call per entry -/
def copRunCmd (ws : List String) : String :=
  match ws with
  | [sig, calls] =>
    let parsed := (calls.splitOn ",").mapM fun c =>
      match c.splitOn ":" with
      | [g, hx] => (ofHex hx).map fun b => (g == "1", b)
      | _ => none
    match parsed with
    | none => "bad-op"
    | some cs =>
      match runCalls { sigpipeIgnored := sig == "1" } cs 0 with
      | .exit code n => s!"exit {code} {n}"
      | .signal w => s!"signal {w}"
  | _ => "bad-op"

/-- `gate <restOk 0|1> <name:ext:fails,...>` -/
def gateCmd (ws : List String) : String :=
  match ws with
  | [rest, tests] =>
    let parsed := ((tests.splitOn ",").filter (· ≠ "")).mapM fun t =>
      match t.splitOn ":" with
      | [n, e, f] => f.toNat?.map fun k => ({ name := n, usesExtern := e == "1", falseAsserts := k } : ShadowRun)
      | _ => none
    match parsed with
    | none => "bad-op"
    | some ts =>
      let g := runShadowTests ts
      let d := phase5 ts (rest == "1")
      s!"exit={d.exitCode} transpile={d.reachesTranspile} tests={g.testCount} skipped={g.skipped} failures=" ++
        ",".intercalate (g.failures.map fun (n, k) => s!"{n}:{k}")
  | _ => "bad-op"

def dynCmd (ops : String) : String :=
  let step (st : DynArr × List String) (t : String) : DynArr × List String :=
    let (a, out) := st
    match t.splitOn ":" with
    | ["push", v] => (a.push (v.toInt?.getD 0), out ++ ["-"])
    | ["pop"] => let (a', r) := a.pop; (a', out ++ [match r with | some v => toString v | none => "E"])
    | ["get", i] => (a, out ++ [match a.get (i.toInt?.getD 0) with | some v => toString v | none => "ABORT"])
    | ["set", i, v] => (match a.set (i.toInt?.getD 0) (v.toInt?.getD 0) with | some a' => (a', out ++ ["-"]) | none => (a, out ++ ["ABORT"]))
    | ["rm", i] => (match a.removeAt (i.toInt?.getD 0) with | some a' => (a', out ++ ["-"]) | none => (a, out ++ ["ABORT"]))
    | ["clear"] => (a.clear, out ++ ["-"])
    | ["reserve", n] => (a.reserve (n.toNat?.getD 0), out ++ ["-"])
    | ["clone"] => (a.clone, out ++ ["-"])
    | ["len"] => (a, out ++ [toString a.len])
    | ["cap"] => (a, out ++ [toString a.cap])
    | _ => (a, out ++ ["?"])
  ",".intercalate ((ops.splitOn ",").foldl step (DynArr.new, [])).2

def gcCmd (ops : String) : String :=
  let step (st : GcState × List Nat × List String) (t : String) : GcState × List Nat × List String :=
    let (g, ids, out) := st
    match t.splitOn ":" with
    | ["alloc"] => let (g', id) := g.alloc; (g', ids ++ [id], out ++ ["-"])
    | ["retain", k] => (match ids[k.toNat?.getD 0]? with
        | some id => ((if g.hashed.contains id then g.retain id else g), ids, out ++ ["-"])
        | none => (g, ids, out ++ ["-"]))
    | ["release", k] => (match ids[k.toNat?.getD 0]? with
        | some id => (g.release id, ids, out ++ ["-"])
        | none => (g, ids, out ++ ["-"]))
    | ["stats"] => (g, ids, out ++ [s!"n={g.numObjects}:" ++ String.join (ids.map fun id => if g.hashed.contains id then "1" else "0")])
    | _ => (g, ids, out ++ ["?"])
  ",".intercalate ((ops.splitOn ",").foldl step ({}, [], [])).2.2

/-- `lex <hex>`: token type numbers and values, `<n>:<hexvalue>` separated by spaces -/
def lexCmd (hex : String) : String :=
  match ofHex hex with
  | none => "bad-op"
  | some bs =>
    match lex bs with
    | .error e => "err " ++ (match e with | .unterminatedChar => "char" | .incompleteEscape => "escape" | .unterminatedString => "string")
    | .ok lo => s!"ok u={lo.unknown} " ++ " ".intercalate (lo.toks.map fun t => s!"{t.ty.toNat}:{hexOr t.val}")

def cgErrText : CgErr → String
  | .undefinedVar x => "cg-undefined-variable " ++ x
  | .undefinedFn f => "cg-undefined-function " ++ f
  | .limit w => "cg-limit " ++ w.replace " " "_"
  | .bad w => "cg-error " ++ w.replace " " "_"
  | .unsupported w => "unsupported " ++ w.replace " " "_"

/-- `compile <hex source>`: the serialised module the three front-end models produce -/
def compileCmd (hex : String) : String :=
  match ofHex hex with
  | none => "bad-op"
  | some bs =>
    match compileSource bs with
    | .error (.lex _) => "lex-error"
    | .error (.parse .reject) => "parse-error"
    | .error (.parse .tooDeep) => "parse-error"
    | .error (.parse .unsupported) => "unsupported parse"
    | .error (.parse .fuel) => "model-fuel"
    | .error (.cg e) => cgErrText e
    | .ok m => "ok " ++ hexOr (serialize m)

def faultText : Sem.Fault → String
  | .assertFail => "assert" | .oob => "oob" | .divZero => "divzero" | .typeError => "type-error"
  | .undefinedVar => "undefined-variable" | .undefinedFn => "undefined-function" | .fuel => "fuel" | .unsupported => "unsupported"

/-- `sem <vm|native> <fuel> <hex source>`: output and outcome under the reference semantics -/
def semCmd (ws : List String) : String :=
  match ws with
  | [c, fu, hex] =>
    match fu.toNat?, ofHex hex with
    | some fuel, some bs =>
      match lex bs with
      | .error _ => "lex-error"
      | .ok lo =>
        match parseProgram lo.toks with
        | .error .unsupported => "unsupported parse"
        | .error .fuel => "model-fuel"
        | .error _ => "parse-error"
        | .ok p =>
          let cfg := if c == "native" then Sem.nativeCfg else Sem.vmCfg
          let o := Sem.runProgram cfg p fuel
          s!"out={hexOr o.out} res=" ++ (match o.res with | .exit n => s!"exit {n}" | .fault f => "fault " ++ faultText f)
    | _, _ => "bad-op"
  | _ => "bad-op"

/-- `tc <hex source>`: verdict of the specification checker -/
def tcCmd (hex : String) : String :=
  match ofHex hex with
  | none => "bad-op"
  | some bs =>
    match lex bs with
    | .error _ => "lex-error"
    | .ok lo =>
      match parseProgram lo.toks with
      | .error .unsupported => "unsupported"
      | .error .fuel => "model-fuel"
      | .error _ => "parse-error"
      | .ok p => if Tc.tcProgram p then "accept" else "reject"

def frameText : Vmd.Frame → String
  | .output b => "O:" ++ hexOr b
  | .error b => "E:" ++ hexOr b
  | .exit c => s!"X:{c}"
  | .pong => "P"
  | .statusRsp b => "S:" ++ hexOr b

/-- `vmd.serve <active> <run> <hex sent>` with run = bad | vf:<hexmsg> | ran:<hexchunk,hexchunk,…|->:<hexerr|->:<code> -/
def vmdServeCmd (ws : List String) : String :=
  match ws with
  | [a, r, hex] =>
    match a.toNat?, ofHex hex with
    | some active, some sent =>
      let run : Option Vmd.Run :=
        match r.splitOn ":" with
        | ["bad"] => some .badFormat
        | ["vf", m] => (ofHex m).map .verifyFail
        | ["ran", cs, e, c] =>
          match (if cs == "-" then some [] else (cs.splitOn ",").mapM ofHex), (if e == "-" then some none else (ofHex e).map some), c.toNat? with
          | some chunks, some err, some code => some (.ran chunks err code)
          | _, _, _ => none
        | _ => none
      match run with
      | none => "bad-op"
      | some run =>
        let (fs, sd) := Vmd.serve (fun _ => run) active sent
        (if sd then "shutdown " else "continue ") ++ (if fs.isEmpty then "-" else "|".intercalate (fs.map frameText))
    | _, _ => "bad-op"
  | _ => "bad-op"

def handle (line : String) : String :=
  match line.splitOn " " with
  | "isa.dec" :: [hex] => isaDec hex
  | "isa.enc" :: ws => isaEnc ws
  | "isa.info" :: ws => isaInfo ws
  | "crc" :: [hex] => crcCmd hex
  | "nvm.load" :: [hex] => nvmLoad hex
  | "nvm.ser" :: [txt] => nvmSer txt
  | "verify" :: [hex] => verifyCmd hex
  | "vm.run" :: ws => vmRun ws
  | "cop.ser" :: ws => copSerCmd ws
  | "cop.de" :: [hex] => copDeCmd hex
  | "cop.run" :: ws => copRunCmd ws
  | "gate" :: ws => gateCmd ws
  | "dyn" :: [ops] => dynCmd ops
  | "gc" :: [ops] => gcCmd ops
  | "lex" :: [hex] => lexCmd hex
  | "compile" :: [hex] => compileCmd hex
  | "sem" :: ws => semCmd ws
  | "vmd.serve" :: ws => vmdServeCmd ws
  | "tc" :: [hex] => tcCmd hex
  | _ => "bad-op"

end NanoVerif.Driver
