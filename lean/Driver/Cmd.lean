import NanoVerif.Model.Isa
namespace NanoVerif.Driver

def natList (ws : List String) : Option (List Nat) := ws.mapM String.toNat?

def joinNat (ns : List Nat) : String := " ".intercalate (ns.map toString)

def isaDec (hex : String) : String :=
  match ofHex hex with
  | none => "bad-op"
  | some bs =>
    match decode bs with
    | none => "err"
    | some (i, n) => s!"ok {i.opcode} {n}" ++ (if i.operands.isEmpty then "" else " " ++ joinNat i.operands)

def isaEnc (ws : List String) : String :=
  match natList ws with
  | some (op :: bufSize :: vs) =>
    match encodeBuf { opcode := op, operands := vs } bufSize with
    | none => "err"
    | some bs => "ok " ++ (if bs.isEmpty then "-" else toHex bs)
  | _ => "bad-op"

def isaInfo (ws : List String) : String :=
  match natList ws with
  | some [b] =>
    match lookup b with
    | none => "none"
    | some info => s!"{info.name} {info.operands.length} " ++ joinNat (info.operands.map Gen.operandSize)
  | _ => "bad-op"

def handle (line : String) : String :=
  match line.splitOn " " with
  | "isa.dec" :: [hex] => isaDec hex
  | "isa.enc" :: ws => isaEnc ws
  | "isa.info" :: ws => isaInfo ws
  | _ => "bad-op"

end NanoVerif.Driver
