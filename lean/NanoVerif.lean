import NanoVerif.Props.C08
import NanoVerif.Props.C10
import NanoVerif.Props.C11
import NanoVerif.Props.C12
import NanoVerif.Props.C13
import NanoVerif.Props.C14
import NanoVerif.Props.C15
import NanoVerif.Props.C16
