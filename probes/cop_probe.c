/* Probe: the real cop_serialize_value / cop_deserialize_value behind the driver's line protocol.
 *   cop.ser <room> <value-text>   -> ok <hex> | err
 *   cop.de <hex>                  -> ok <consumed> <value-text> | err
 * value text: comma separated prefix form: i<u64> f<u64 bits> b0|b1 s<hex|-> o<u64> v t<tag> a<etype>.<count>,elem,... */
#define _GNU_SOURCE
#include <stdio.h>
#include <stdlib.h>
#include <string.h>
#include <inttypes.h>
#include "nanovm/cop_protocol.h"
#include "nanovm/heap.h"

int g_argc = 0; char **g_argv = NULL;
static VmHeap H;

static int hexv(int c) { if (c >= '0' && c <= '9') return c - '0'; if (c >= 'a' && c <= 'f') return c - 'a' + 10; if (c >= 'A' && c <= 'F') return c - 'A' + 10; return -1; }
static uint8_t *unhex(const char *s, size_t *n) {
    if (strcmp(s, "-") == 0) { *n = 0; return malloc(1); }
    size_t l = strlen(s); if (l % 2) return NULL;
    uint8_t *b = malloc(l / 2 ? l / 2 : 1);
    for (size_t i = 0; i < l / 2; i++) { int x = hexv(s[2*i]), y = hexv(s[2*i+1]); if (x < 0 || y < 0) { free(b); return NULL; } b[i] = (uint8_t)(x*16+y); }
    *n = l / 2; return b;
}

static char **toks; static int ntok, curtok;
static int parse_val(NanoValue *out) {
    if (curtok >= ntok) return 0;
    char *t = toks[curtok++];
    memset(out, 0, sizeof *out);
    switch (t[0]) {
        case 'i': out->tag = TAG_INT; out->as.i64 = (int64_t)strtoull(t + 1, NULL, 10); return 1;
        case 'f': { uint64_t b = strtoull(t + 1, NULL, 10); out->tag = TAG_FLOAT; memcpy(&out->as.f64, &b, 8); return 1; }
        case 'b': *out = val_bool(t[1] == '1'); return 1;
        case 'o': out->tag = TAG_OPAQUE; out->as.i64 = (int64_t)strtoull(t + 1, NULL, 10); return 1;
        case 'v': *out = val_void(); return 1;
        case 't': out->tag = (uint8_t)atoi(t + 1); return 1;
        case 's': { size_t n; uint8_t *b = unhex(t + 1, &n); if (!b) return 0; *out = val_string(vm_string_new(&H, (const char *)b, (uint32_t)n)); free(b); return 1; }
        case 'a': {
            unsigned et, cnt; if (sscanf(t + 1, "%u.%u", &et, &cnt) != 2) return 0;
            VmArray *a = vm_array_new(&H, (uint8_t)et, cnt ? cnt : 4);
            for (unsigned i = 0; i < cnt; i++) { NanoValue e; if (!parse_val(&e)) return 0; vm_array_push(a, e); vm_release(&H, e); }
            *out = val_array(a); return 1;
        }
    }
    return 0;
}

static void put_val(NanoValue v) {
    uint64_t b;
    switch (v.tag) {
        case TAG_INT: printf("i%" PRIu64, (uint64_t)v.as.i64); break;
        case TAG_FLOAT: memcpy(&b, &v.as.f64, 8); printf("f%" PRIu64, b); break;
        case TAG_BOOL: printf(v.as.boolean ? "b1" : "b0"); break;
        case TAG_OPAQUE: printf("o%" PRIu64, (uint64_t)v.as.i64); break;
        case TAG_VOID: printf("v"); break;
        case TAG_STRING: printf("s"); if (!v.as.string || v.as.string->length == 0) printf("-"); else for (uint32_t i = 0; i < v.as.string->length; i++) printf("%02x", (unsigned char)v.as.string->data[i]); break;
        case TAG_ARRAY: printf("a%u.%u", v.as.array->elem_type, v.as.array->length); for (uint32_t i = 0; i < v.as.array->length; i++) { printf(","); put_val(v.as.array->elements[i]); } break;
        default: printf("t%u", v.tag);
    }
}

static void do_ser(char *arg) {
    char *sp = strchr(arg, ' '); if (!sp) { puts("bad-op"); return; }
    *sp = 0; uint32_t room = (uint32_t)strtoul(arg, NULL, 10);
    char *txt = sp + 1;
    int cap = 16; toks = malloc(cap * sizeof(char *)); ntok = 0; curtok = 0;
    for (char *t = strtok(txt, ","); t; t = strtok(NULL, ",")) { if (ntok == cap) { cap *= 2; toks = realloc(toks, cap * sizeof(char *)); } toks[ntok++] = t; }
    NanoValue v;
    if (!parse_val(&v)) { puts("bad-op"); free(toks); return; }
    uint8_t *buf = malloc(room ? room : 1);
    uint32_t n = cop_serialize_value(&v, buf, room);
    if (n == 0) puts("err"); else { printf("ok "); for (uint32_t i = 0; i < n; i++) printf("%02x", buf[i]); puts(""); }
    free(buf); vm_release(&H, v); free(toks);
}

static void do_de(char *arg) {
    size_t n; uint8_t *b = unhex(arg, &n); if (!b) { puts("bad-op"); return; }
    uint8_t *exact = malloc(n ? n : 1); memcpy(exact, b, n); free(b);
    NanoValue v; memset(&v, 0, sizeof v);
    uint32_t c = cop_deserialize_value(exact, (uint32_t)n, &v, &H);
    if (c == 0) puts("err"); else { printf("ok %u ", c); put_val(v); puts(""); vm_release(&H, v); }
    free(exact);
}

int main(void) {
    vm_heap_init(&H);
    char *line = NULL; size_t cap = 0; ssize_t len;
    while ((len = getline(&line, &cap, stdin)) > 0) {
        while (len > 0 && (line[len-1] == '\n' || line[len-1] == '\r')) line[--len] = 0;
        if (len == 0) { puts(""); continue; }
        char *sp = strchr(line, ' '); char *arg = sp ? sp + 1 : line + len; if (sp) *sp = 0;
        if (!strcmp(line, "cop.ser")) do_ser(arg);
        else if (!strcmp(line, "cop.de")) do_de(arg);
        else puts("bad-op");
        fflush(stdout);
    }
    return 0;
}
