/* Probe: the real isa_encode / isa_decode / nvm_crc32 behind the driver's line protocol.
 * Linked with objects rebuilt from /repo's working tree. */
#include <stdio.h>
#include <stdlib.h>
#include <string.h>
#include <inttypes.h>
#include "nanoisa/isa.h"
#include "nanoisa/nvm_format.h"
#include "nanoisa/assembler.h"
#include "nanoisa/disassembler.h"

static int hexv(int c) {
    if (c >= '0' && c <= '9') return c - '0';
    if (c >= 'a' && c <= 'f') return c - 'a' + 10;
    if (c >= 'A' && c <= 'F') return c - 'A' + 10;
    return -1;
}

/* returns malloc'd buffer of exactly n bytes (so ASan sees overreads) */
static uint8_t *unhex(const char *s, size_t *n) {
    if (strcmp(s, "-") == 0) { *n = 0; return malloc(1); }
    size_t l = strlen(s);
    if (l % 2) return NULL;
    uint8_t *b = malloc(l / 2 ? l / 2 : 1);
    for (size_t i = 0; i < l / 2; i++) {
        int x = hexv(s[2 * i]), y = hexv(s[2 * i + 1]);
        if (x < 0 || y < 0) { free(b); return NULL; }
        b[i] = (uint8_t)(x * 16 + y);
    }
    *n = l / 2;
    return b;
}

static void puthex(const uint8_t *b, size_t n) {
    if (n == 0) { printf("-"); return; }
    for (size_t i = 0; i < n; i++) printf("%02x", b[i]);
}

static void do_dec(char *arg) {
    size_t n; uint8_t *b = unhex(arg, &n);
    if (!b) { puts("bad-op"); return; }
    DecodedInstruction d;
    memset(&d, 0xAA, sizeof d);
    uint32_t r = isa_decode(b, n, &d);
    if (r == 0) { puts("err"); free(b); return; }
    printf("ok %u %u", d.opcode, r);
    if (r != d.byte_length) printf(" BYTELEN-MISMATCH");
    for (int i = 0; i < d.operand_count; i++) {
        uint64_t v = 0;
        switch (d.operand_types[i]) {
            case OPERAND_NONE: v = 0; break;
            case OPERAND_U8: v = d.operands[i].u8; break;
            case OPERAND_U16: v = d.operands[i].u16; break;
            case OPERAND_U32: v = d.operands[i].u32; break;
            case OPERAND_I32: v = (uint32_t)d.operands[i].i32; break;
            case OPERAND_I64: v = (uint64_t)d.operands[i].i64; break;
            case OPERAND_F64: memcpy(&v, &d.operands[i].f64, 8); break;
        }
        printf(" %" PRIu64, v);
    }
    puts("");
    free(b);
}

static void do_enc(char *arg) {
    /* <opcode> <bufsize> <v...> */
    char *save = NULL;
    char *t = strtok_r(arg, " ", &save);
    if (!t) { puts("bad-op"); return; }
    unsigned long op = strtoul(t, NULL, 10);
    t = strtok_r(NULL, " ", &save);
    if (!t) { puts("bad-op"); return; }
    unsigned long bufsize = strtoul(t, NULL, 10);
    uint64_t vals[16]; int nv = 0;
    while ((t = strtok_r(NULL, " ", &save)) && nv < 16) vals[nv++] = strtoull(t, NULL, 10);
    if (op > 255) { puts("err"); return; }
    DecodedInstruction d;
    memset(&d, 0, sizeof d);
    d.opcode = (uint8_t)op;
    const InstructionInfo *info = isa_get_info((uint8_t)op);
    if (info) {
        if (nv != info->operand_count) { puts("err"); return; } /* model: one value per declared operand */
        d.operand_count = info->operand_count;
        for (int i = 0; i < info->operand_count && i < MAX_OPERANDS; i++) {
            d.operand_types[i] = info->operands[i];
            switch (info->operands[i]) {
                case OPERAND_NONE: break;
                case OPERAND_U8: d.operands[i].u8 = (uint8_t)vals[i]; break;
                case OPERAND_U16: d.operands[i].u16 = (uint16_t)vals[i]; break;
                case OPERAND_U32: d.operands[i].u32 = (uint32_t)vals[i]; break;
                case OPERAND_I32: d.operands[i].i32 = (int32_t)(uint32_t)vals[i]; break;
                case OPERAND_I64: d.operands[i].i64 = (int64_t)vals[i]; break;
                case OPERAND_F64: memcpy(&d.operands[i].f64, &vals[i], 8); break;
            }
        }
    }
    uint8_t *buf = malloc(bufsize ? bufsize : 1);
    uint32_t r = isa_encode(&d, buf, bufsize);
    if (r == 0) puts("err");
    else { printf("ok "); puthex(buf, r); puts(""); }
    free(buf);
}

static void do_info(char *arg) {
    unsigned long op = strtoul(arg, NULL, 10);
    const InstructionInfo *info = op < 256 ? isa_get_info((uint8_t)op) : NULL;
    if (!info) { puts("none"); return; }
    printf("%s %u", info->name, info->operand_count);
    for (int i = 0; i < info->operand_count; i++) printf(" %u", isa_operand_size(info->operands[i]));
    puts("");
}

static void do_crc(char *arg) {
    size_t n; uint8_t *b = unhex(arg, &n);
    if (!b) { puts("bad-op"); return; }
    printf("%u\n", nvm_crc32(b, (uint32_t)n));
    free(b);
}

/* ---- module text form:  f=<flags>;e=<entry>;s=<hex,..>;c=<hex>;fn=<a.b.c.d.e.f,..>;d=<o.l,..>;i=<m.f.pc.rt.hex|N,..> ---- */
static void print_module(const NvmModule *m) {
    printf("f=%u;e=%u;s=", m->header.flags, m->header.entry_point);
    for (uint32_t i = 0; i < m->string_count; i++) { if (i) printf(","); puthex((const uint8_t *)m->strings[i], m->string_lengths[i]); }
    printf(";c="); puthex(m->code, m->code_size);
    printf(";fn=");
    for (uint32_t i = 0; i < m->function_count; i++) {
        const NvmFunctionEntry *f = &m->functions[i];
        printf("%s%u.%u.%u.%u.%u.%u", i ? "," : "", f->name_idx, f->arity, f->code_offset, f->code_length, f->local_count, f->upvalue_count);
    }
    printf(";d=");
    for (uint32_t i = 0; i < m->debug_count; i++) printf("%s%u.%u", i ? "," : "", m->debug_entries[i].bytecode_offset, m->debug_entries[i].source_line);
    printf(";i=");
    for (uint32_t i = 0; i < m->import_count; i++) {
        const NvmImportEntry *e = &m->imports[i];
        printf("%s%u.%u.%u.%u.", i ? "," : "", e->module_name_idx, e->function_name_idx, e->param_count, e->return_type);
        if (m->import_param_types[i]) puthex(m->import_param_types[i], e->param_count); else printf("N");
    }
}

static NvmModule *parse_module(char *txt) {
    NvmModule *m = nvm_module_new();
    char *save = NULL;
    for (char *fld = strtok_r(txt, ";", &save); fld; fld = strtok_r(NULL, ";", &save)) {
        char *eq = strchr(fld, '=');
        if (!eq) { nvm_module_free(m); return NULL; }
        *eq = 0; char *val = eq + 1;
        if (!strcmp(fld, "f")) m->header.flags = (uint32_t)strtoul(val, NULL, 10);
        else if (!strcmp(fld, "e")) m->header.entry_point = (uint32_t)strtoul(val, NULL, 10);
        else if (!strcmp(fld, "c")) {
            size_t n; uint8_t *b = unhex(*val ? val : "-", &n);
            if (!b) { nvm_module_free(m); return NULL; }
            if (n) nvm_append_code(m, b, (uint32_t)n);
            free(b);
        } else {
            char *s2 = NULL;
            for (char *it = strtok_r(val, ",", &s2); it; it = strtok_r(NULL, ",", &s2)) {
                if (!strcmp(fld, "s")) {
                    size_t n; uint8_t *b = unhex(it, &n);
                    if (!b) { nvm_module_free(m); return NULL; }
                    nvm_add_string(m, (const char *)b, (uint32_t)n);
                    free(b);
                } else if (!strcmp(fld, "fn")) {
                    unsigned a[6];
                    if (sscanf(it, "%u.%u.%u.%u.%u.%u", &a[0], &a[1], &a[2], &a[3], &a[4], &a[5]) != 6) { nvm_module_free(m); return NULL; }
                    NvmFunctionEntry f = { a[0], (uint16_t)a[1], a[2], a[3], (uint16_t)a[4], (uint16_t)a[5] };
                    nvm_add_function(m, &f);
                } else if (!strcmp(fld, "d")) {
                    unsigned a, b;
                    if (sscanf(it, "%u.%u", &a, &b) != 2) { nvm_module_free(m); return NULL; }
                    nvm_add_debug_entry(m, a, b);
                } else if (!strcmp(fld, "i")) {
                    unsigned a[4]; char pt[2 * 65536 + 4];
                    if (sscanf(it, "%u.%u.%u.%u.%131075s", &a[0], &a[1], &a[2], &a[3], pt) != 5) { nvm_module_free(m); return NULL; }
                    if (!strcmp(pt, "N")) nvm_add_import(m, a[0], a[1], (uint16_t)a[2], (uint8_t)a[3], NULL);
                    else {
                        size_t n; uint8_t *b = unhex(pt, &n);
                        if (!b || n != a[2]) { free(b); nvm_module_free(m); return NULL; }
                        nvm_add_import(m, a[0], a[1], (uint16_t)a[2], (uint8_t)a[3], b);
                        free(b);
                    }
                }
            }
        }
    }
    return m;
}

static void do_load(char *arg) {
    size_t n; uint8_t *b = unhex(arg, &n);
    if (!b) { puts("bad-op"); return; }
    NvmModule *m = nvm_deserialize(b, (uint32_t)n);
    if (!m) puts("err");
    else { printf("ok "); print_module(m); puts(""); nvm_module_free(m); }
    free(b);
}

static void do_ser(char *arg) {
    NvmModule *m = parse_module(arg);
    if (!m) { puts("bad-op"); return; }
    uint32_t sz = 0;
    uint8_t *b = nvm_serialize(m, &sz);
    if (!b) puts("err"); else { printf("ok "); puthex(b, sz); puts(""); free(b); }
    nvm_module_free(m);
}

/* ---- exhaustive / sampled damage on the implementation (C12 oracle: nvm_deserialize == NULL) ---- */
static int loads(const uint8_t *b, size_t n) {
    uint8_t *c = malloc(n ? n : 1);          /* exact-size copy so that a sanitizer sees any over-read */
    memcpy(c, b, n);
    NvmModule *m = nvm_deserialize(c, (uint32_t)n);
    free(c);
    if (m) { nvm_module_free(m); return 1; }
    return 0;
}

/* the loader's verdict must not depend on what the process loaded before: every damaged image is presented right
 * after the intact one (a cache of "already verified" images, keyed by anything short of the whole content, would
 * accept the damaged copy) */
static void prime(const uint8_t *b, size_t n) {
    NvmModule *m = nvm_deserialize(b, (uint32_t)n);
    if (m) nvm_module_free(m);
}

static void do_flipall(char *arg) {
    size_t n; uint8_t *b = unhex(arg, &n);
    if (!b) { puts("bad-op"); return; }
    size_t flips = 0, acc = 0; long first = -1;
    for (size_t bit = (size_t)NVM_HEADER_SIZE * 8; bit < n * 8; bit++) {
        prime(b, n);
        b[bit / 8] ^= (uint8_t)(1u << (bit % 8));
        NvmModule *m = nvm_deserialize(b, (uint32_t)n);
        if (m) { acc++; if (first < 0) first = (long)bit; nvm_module_free(m); }
        b[bit / 8] ^= (uint8_t)(1u << (bit % 8));
        flips++;
    }
    printf("flips=%zu accepted=%zu first=%ld\n", flips, acc, first);
    free(b);
}

/* every non-zero error pattern confined to one byte (all aligned bursts of <= 8 bits), every body byte */
static void do_bytexor(char *arg) {
    size_t n; uint8_t *b = unhex(arg, &n);
    if (!b) { puts("bad-op"); return; }
    size_t tries = 0, acc = 0; char first[64] = "-";
    for (size_t i = NVM_HEADER_SIZE; i < n; i++) {
        for (unsigned x = 1; x < 256; x++) {
            if ((x & 15) == 1) prime(b, n);
            b[i] ^= (uint8_t)x;
            NvmModule *m = nvm_deserialize(b, (uint32_t)n);
            if (m) { acc++; if (first[0] == '-') snprintf(first, sizeof first, "%zu:%u", i, x); nvm_module_free(m); }
            b[i] ^= (uint8_t)x;
            tries++;
        }
    }
    printf("bytexor=%zu accepted=%zu first=%s\n", tries, acc, first);
    free(b);
}

static void do_truncall(char *arg) {
    size_t n; uint8_t *b = unhex(arg, &n);
    if (!b) { puts("bad-op"); return; }
    size_t acc = 0; long first = -1;
    for (size_t k = 0; k < n; k++) if (loads(b, k)) { acc++; if (first < 0) first = (long)k; }
    printf("truncations=%zu accepted=%zu first=%ld\n", n, acc, first);
    free(b);
}

static uint64_t xs(uint64_t *s) { uint64_t x = *s; x ^= x << 13; x ^= x >> 7; x ^= x << 17; return *s = x; }

static void do_bursts(char *arg) {
    /* <seed> <count> <hex> */
    char *save = NULL;
    char *t1 = strtok_r(arg, " ", &save), *t2 = strtok_r(NULL, " ", &save), *t3 = strtok_r(NULL, " ", &save);
    if (!t1 || !t2 || !t3) { puts("bad-op"); return; }
    uint64_t st = strtoull(t1, NULL, 10) * 2654435761u + 88172645463325252ull;
    size_t count = strtoull(t2, NULL, 10);
    size_t n; uint8_t *b = unhex(t3, &n);
    if (!b || n <= NVM_HEADER_SIZE) { puts("bursts=0 accepted=0 first=-"); free(b); return; }
    size_t body_bits = (n - NVM_HEADER_SIZE) * 8, acc = 0, done = 0;
    char first[64] = "-";
    for (size_t it = 0; it < count; it++) {
        unsigned len = 1 + (unsigned)(xs(&st) % 32);
        if (len > body_bits) len = (unsigned)body_bits;
        size_t off = (size_t)(xs(&st) % (body_bits - len + 1));
        uint32_t pat = (uint32_t)xs(&st);
        pat |= 1u; if (len < 32) pat &= (1u << len) - 1; pat |= 1u << (len - 1);
        if ((it & 7) == 0) prime(b, n);
        for (unsigned k = 0; k < len; k++) if (pat >> k & 1) { size_t bit = (size_t)NVM_HEADER_SIZE * 8 + off + k; b[bit / 8] ^= (uint8_t)(1u << (bit % 8)); }
        NvmModule *m = nvm_deserialize(b, (uint32_t)n);
        if (m) { acc++; if (first[0] == '-') snprintf(first, sizeof first, "%zu:%u:%u", off, len, pat); nvm_module_free(m); }
        for (unsigned k = 0; k < len; k++) if (pat >> k & 1) { size_t bit = (size_t)NVM_HEADER_SIZE * 8 + off + k; b[bit / 8] ^= (uint8_t)(1u << (bit % 8)); }
        done++;
    }
    printf("bursts=%zu accepted=%zu first=%s\n", done, acc, first);
    free(b);
}

/* ---- text form: assemble(disassemble(m)) must give back code, functions and strings ---- */
static void do_asmrt(char *arg) {
    size_t n; uint8_t *b = unhex(arg, &n);
    if (!b) { puts("bad-op"); return; }
    NvmModule *m = nvm_deserialize(b, (uint32_t)n);
    free(b);
    if (!m) { puts("loaderr"); return; }
    char *txt = disasm_module(m);
    if (!txt) { puts("disasm-null"); nvm_module_free(m); return; }
    AsmResult r; memset(&r, 0, sizeof r);
    NvmModule *m2 = asm_assemble(txt, &r);
    if (!m2) {
        for (char *q = r.message; *q; q++) if (*q == '\n' || *q == ' ') *q = '_';
        printf("asmerr %d line=%u %s\n", (int)r.error, r.line, r.message);
        free(txt); nvm_module_free(m); return;
    }
    const char *why = NULL; char buf[128];
    if (m2->code_size != m->code_size) { snprintf(buf, sizeof buf, "code_size_%u_vs_%u", m->code_size, m2->code_size); why = buf; }
    else if (memcmp(m2->code, m->code, m->code_size) != 0) {
        uint32_t k = 0; while (m->code[k] == m2->code[k]) k++;
        snprintf(buf, sizeof buf, "code_byte_at_%u", k); why = buf;
    }
    if (!why && m2->function_count != m->function_count) { snprintf(buf, sizeof buf, "function_count_%u_vs_%u", m->function_count, m2->function_count); why = buf; }
    for (uint32_t i = 0; !why && i < m->function_count; i++) {
        const NvmFunctionEntry *f = &m->functions[i], *g = &m2->functions[i];
        const char *fn1 = nvm_get_string(m, f->name_idx), *fn2 = nvm_get_string(m2, g->name_idx);
        if (f->arity != g->arity || f->code_offset != g->code_offset || f->code_length != g->code_length ||
            f->local_count != g->local_count || f->upvalue_count != g->upvalue_count || !fn1 || !fn2 || strcmp(fn1, fn2) != 0) {
            snprintf(buf, sizeof buf, "function_%u", i); why = buf;
        }
    }
    if (!why && m2->string_count != m->string_count) { snprintf(buf, sizeof buf, "string_count_%u_vs_%u", m->string_count, m2->string_count); why = buf; }
    for (uint32_t i = 0; !why && i < m->string_count; i++)
        if (m->string_lengths[i] != m2->string_lengths[i] || memcmp(m->strings[i], m2->strings[i], m->string_lengths[i]) != 0) {
            snprintf(buf, sizeof buf, "string_%u", i); why = buf;
        }
    if (!why && ((m->header.flags & NVM_FLAG_HAS_MAIN) != (m2->header.flags & NVM_FLAG_HAS_MAIN) ||
                 ((m->header.flags & NVM_FLAG_HAS_MAIN) && m->header.entry_point != m2->header.entry_point))) why = "entry";
    if (why) {
        /* same module up to the order in which function bodies are laid out in the code section? */
        int relaid = (m2->function_count == m->function_count && m2->string_count == m->string_count && m2->code_size == m->code_size);
        for (uint32_t i = 0; relaid && i < m->string_count; i++)
            if (m->string_lengths[i] != m2->string_lengths[i] || memcmp(m->strings[i], m2->strings[i], m->string_lengths[i]) != 0) relaid = 0;
        for (uint32_t i = 0; relaid && i < m->function_count; i++) {
            const NvmFunctionEntry *f = &m->functions[i], *g = &m2->functions[i];
            if (f->name_idx != g->name_idx || f->arity != g->arity || f->code_length != g->code_length ||
                f->local_count != g->local_count || f->upvalue_count != g->upvalue_count) { relaid = 0; break; }
            if (f->code_offset > m->code_size || f->code_length > m->code_size - f->code_offset ||
                g->code_offset > m2->code_size || g->code_length > m2->code_size - g->code_offset) { relaid = 0; break; }
            if (memcmp(m->code + f->code_offset, m2->code + g->code_offset, f->code_length) != 0) relaid = 0;
        }
        if (relaid) puts("relaid"); else printf("diff %s\n", why);
    } else puts("same");
    free(txt); nvm_module_free(m); nvm_module_free(m2);
}

int main(void) {
    char *line = NULL; size_t cap = 0; ssize_t len;
    while ((len = getline(&line, &cap, stdin)) > 0) {
        while (len > 0 && (line[len - 1] == '\n' || line[len - 1] == '\r')) line[--len] = 0;
        if (len == 0) { puts(""); continue; }
        char *sp = strchr(line, ' ');
        char *arg = sp ? sp + 1 : line + len;
        if (sp) *sp = 0;
        if (!strcmp(line, "isa.dec")) do_dec(arg);
        else if (!strcmp(line, "isa.enc")) do_enc(arg);
        else if (!strcmp(line, "isa.info")) do_info(arg);
        else if (!strcmp(line, "crc")) do_crc(arg);
        else if (!strcmp(line, "nvm.load")) do_load(arg);
        else if (!strcmp(line, "nvm.ser")) do_ser(arg);
        else if (!strcmp(line, "asm.rt")) do_asmrt(arg);
        else if (!strcmp(line, "nvm.flipall")) do_flipall(arg);
        else if (!strcmp(line, "nvm.truncall")) do_truncall(arg);
        else if (!strcmp(line, "nvm.bytexor")) do_bytexor(arg);
        else if (!strcmp(line, "nvm.bursts")) do_bursts(arg);
        else puts("bad-op");
    }
    free(line);
    return 0;
}
