#!/usr/bin/env python3
"""Scripted stand-in for nano_cop (placed first on PATH as `nano_cop`).  The script is a JSON list in
$FAKE_COP_SCRIPT_FILE; every start of the co-process consumes the next *generation* of the script
(generation index kept in $FAKE_COP_STATE).  Actions:
  {"op":"read"}                       read one message (header + payload) from stdin
  {"op":"send","type":T,"payload":hex,"len":N?,"version":V?}   write one message (len/version override the honest values)
  {"op":"raw","bytes":hex}            write raw bytes
  {"op":"reply_int","value":n}        FFI_RESULT with an int value
  {"op":"close_stdin"} {"op":"close_stdout"} {"op":"exit","code":c} {"op":"kill"} {"op":"sleep","ms":n}
  {"op":"serve_strlen"}               loop: answer every request with the length of its first string argument; exit on SHUTDOWN/EOF
"""
import json, os, signal, struct, sys, time

def read_exact(fd, n):
    b = b""
    while len(b) < n:
        try:
            c = os.read(fd, n - len(b))
        except OSError:
            return None
        if not c:
            return None
        b += c
    return b

def read_msg():
    h = read_exact(0, 8)
    if h is None:
        return None
    ver, typ, res, ln = struct.unpack("<BBHI", h)
    p = read_exact(0, ln) if ln else b""
    if p is None:
        return None
    return typ, p

def send(typ, payload, ln=None, version=1):
    ln = len(payload) if ln is None else ln
    try:
        os.write(1, struct.pack("<BBHI", version, typ, 0, ln & 0xFFFFFFFF) + payload)
    except OSError:
        pass

def main():
    gens = json.load(open(os.environ["FAKE_COP_SCRIPT_FILE"]))
    st = os.environ["FAKE_COP_STATE"]
    try:
        g = int(open(st).read())
    except Exception:
        g = 0
    open(st, "w").write(str(g + 1))
    open(st + ".pids", "a").write("%d\n" % os.getpid())
    script = gens[g] if g < len(gens) else [{"op": "read"}, {"op": "send", "type": 0x12, "payload": ""}, {"op": "serve_strlen"}]
    for a in script:
        op = a["op"]
        if op == "read":
            if read_msg() is None:
                pass
        elif op == "send":
            send(a["type"], bytes.fromhex(a.get("payload", "")), a.get("len"), a.get("version", 1))
        elif op == "raw":
            try:
                os.write(1, bytes.fromhex(a["bytes"]))
            except OSError:
                pass
        elif op == "reply_int":
            send(0x10, b"\x01" + struct.pack("<q", a["value"]))
        elif op == "close_stdin":
            os.close(0)
        elif op == "close_stdout":
            os.close(1)
        elif op == "exit":
            os._exit(a.get("code", 0))
        elif op == "kill":
            os.kill(os.getpid(), signal.SIGKILL)
        elif op == "sleep":
            time.sleep(a["ms"] / 1000.0)
        elif op == "serve_strlen":
            while True:
                m = read_msg()
                if m is None or m[0] == 0x03:
                    os._exit(0)
                if m[0] == 0x02:
                    p = m[1]
                    n = 0
                    if len(p) >= 11 and p[6] == 5:
                        n = struct.unpack("<I", p[7:11])[0]
                    send(0x10, b"\x01" + struct.pack("<q", n))
    # script over: linger until the parent closes the pipe or tells us to stop (like a hung but harmless peer)
    try:
        while True:
            m = read_msg()
            if m is None or m[0] == 0x03:
                break
    except Exception:
        pass
    os._exit(0)

main()
