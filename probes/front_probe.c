/* Probe: tokenize() and parse_program() behind the driver's line protocol.
 *   lex <hex>    -> ok u=<n unknown chars seen on stderr: not available, printed as ?> <type>:<hexvalue|-> ...   |  err
 *   parse <hex>  -> ok | fail | lexfail
 * Diagnostics of the C code go to stderr (discarded by the harness). */
#define _GNU_SOURCE
#include <stdio.h>
#include <stdlib.h>
#include <string.h>
#include "nanolang.h"

int g_argc = 0;
char **g_argv = NULL;

static int hexv(int c) {
    if (c >= '0' && c <= '9') return c - '0';
    if (c >= 'a' && c <= 'f') return c - 'a' + 10;
    if (c >= 'A' && c <= 'F') return c - 'A' + 10;
    return -1;
}
static char *unhex(const char *s) {
    if (strcmp(s, "-") == 0) { char *b = malloc(1); b[0] = 0; return b; }
    size_t l = strlen(s);
    if (l % 2) return NULL;
    char *b = malloc(l / 2 + 1);
    for (size_t i = 0; i < l / 2; i++) {
        int x = hexv(s[2 * i]), y = hexv(s[2 * i + 1]);
        if (x < 0 || y < 0) { free(b); return NULL; }
        b[i] = (char)(x * 16 + y);
    }
    b[l / 2] = 0;
    return b;
}

int main(void) {
    char *line = NULL; size_t cap = 0; ssize_t len;
    setvbuf(stdout, NULL, _IOFBF, 1 << 16);
    while ((len = getline(&line, &cap, stdin)) > 0) {
        while (len > 0 && (line[len - 1] == '\n' || line[len - 1] == '\r')) line[--len] = 0;
        char *sp = strchr(line, ' ');
        char *arg = sp ? sp + 1 : line + len;
        if (sp) *sp = 0;
        char *src = unhex(arg);
        if (!src) { puts("bad-op"); fflush(stdout); continue; }
        if (!strcmp(line, "lex")) {
            int n = 0;
            Token *t = tokenize(src, &n);
            if (!t) { puts("err"); }
            else {
                printf("ok");
                for (int i = 0; i < n; i++) {
                    printf(" %d:", (int)t[i].token_type);
                    if (!t[i].value || !t[i].value[0]) putchar('-');
                    else for (const unsigned char *p = (const unsigned char *)t[i].value; *p; p++) printf("%02x", *p);
                }
                putchar('\n');
                free_tokens(t, n);
            }
        } else if (!strcmp(line, "parse")) {
            int n = 0;
            Token *t = tokenize(src, &n);
            if (!t) puts("lexfail");
            else {
                ASTNode *p = parse_program(t, n);
                puts(p ? "ok" : "fail");
                if (p) free_ast(p);
                free_tokens(t, n);
            }
        } else puts("bad-op");
        free(src);
        fflush(stdout);
    }
    free(line);
    return 0;
}
