/* LD_PRELOAD shim: pure scheduling perturbation for the daemon checks (C17/C18).  After a close() of a
 * descriptor >= 3 and before a write() to one, the calling thread sleeps for a pseudo-random short time
 * (seeded by SCHED_SHIM_SEED), which widens the windows in which sessions overlap.  No call is altered. */
#define _GNU_SOURCE
#include <dlfcn.h>
#include <stdint.h>
#include <stdlib.h>
#include <unistd.h>
#include <time.h>
#include <sys/types.h>

static uint64_t state = 0;
static int inited = 0;
static uint64_t nextr(void) {
    if (!inited) { const char *s = getenv("SCHED_SHIM_SEED"); state = s ? strtoull(s, 0, 10) * 2654435761u + 12345 : 88172645463325252ull; inited = 1; }
    uint64_t x = __atomic_load_n(&state, __ATOMIC_RELAXED);
    x ^= x << 13; x ^= x >> 7; x ^= x << 17;
    __atomic_store_n(&state, x, __ATOMIC_RELAXED);
    return x;
}
static void nap(unsigned max_us) {
    struct timespec ts = {0, (long)(nextr() % max_us) * 1000L};
    nanosleep(&ts, 0);
}
int close(int fd) {
    static int (*real)(int) = 0;
    if (!real) real = (int (*)(int))dlsym(RTLD_NEXT, "close");
    int r = real(fd);
    if (fd >= 3 && (nextr() & 1)) nap(3000);
    return r;
}
ssize_t write(int fd, const void *buf, size_t n) {
    static ssize_t (*real)(int, const void *, size_t) = 0;
    if (!real) real = (ssize_t (*)(int, const void *, size_t))dlsym(RTLD_NEXT, "write");
    if (fd >= 3 && (nextr() % 4) == 0) nap(1500);
    return real(fd, buf, n);
}
