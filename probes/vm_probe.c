/* Probe: nvm_deserialize -> nvm_verify -> vm_execute (with the instruction budget and the heap
 * registry of the NANOLANG_VERIF hooks) behind the driver's line protocol.
 *   verify <hex>                  -> ok | fail | loaderr
 *   vm.run <fuel> <trace> <hex>   -> [trace lines joined by '|'] R res=<code|unsupported(fuel)> out=<hex> top=<val> live=<n> dangling=false
 */
#define _GNU_SOURCE
#include <stdio.h>
#include <stdlib.h>
#include <string.h>
#include <inttypes.h>
#include "nanoisa/isa.h"
#include "nanoisa/nvm_format.h"
#include "nanoisa/verifier.h"
#include "nanovm/vm.h"
#include "nanovm/vm_ffi.h"
#include "nanovm/heap.h"
#include <malloc.h>

/* Every reallocation moves the block (and scribbles over the old one): code that keeps a pointer into a buffer across a call
 * that may grow it - the operand stack, an array's element vector - shows at once instead of depending on the allocator's mood.
 * A sanitizer build has its own allocator, which already never extends in place. */
#if !defined(__SANITIZE_ADDRESS__)
void *realloc(void *p, size_t n) {
    if (!p) return malloc(n);
    if (n == 0) { free(p); return NULL; }
    void *q = malloc(n);
    if (!q) return NULL;
    size_t old = malloc_usable_size(p);
    memcpy(q, p, old < n ? old : n);
    memset(p, 0xA5, old);
    free(p);
    return q;
}
#endif

int g_argc = 0;
char **g_argv = NULL;

static int hexv(int c) {
    if (c >= '0' && c <= '9') return c - '0';
    if (c >= 'a' && c <= 'f') return c - 'a' + 10;
    if (c >= 'A' && c <= 'F') return c - 'A' + 10;
    return -1;
}
static uint8_t *unhex(const char *s, size_t *n) {
    if (strcmp(s, "-") == 0) { *n = 0; return malloc(1); }
    size_t l = strlen(s);
    if (l % 2) return NULL;
    uint8_t *b = malloc(l / 2 ? l / 2 : 1);
    for (size_t i = 0; i < l / 2; i++) {
        int x = hexv(s[2 * i]), y = hexv(s[2 * i + 1]);
        if (x < 0 || y < 0) { free(b); return NULL; }
        b[i] = (uint8_t)(x * 16 + y);
    }
    *n = l / 2;
    return b;
}

/* ---- registry of live heap objects, ids in allocation order ---- */
typedef struct { void *p; uint64_t id; uint8_t tag; } Reg;
static Reg *reg = NULL; static size_t reg_n = 0, reg_cap = 0; static uint64_t next_id = 0;
static uint64_t double_free = 0;

static void on_alloc(void *p, uint8_t tag) {
    if (reg_n == reg_cap) { reg_cap = reg_cap ? reg_cap * 2 : 256; reg = realloc(reg, reg_cap * sizeof(Reg)); }
    reg[reg_n].p = p; reg[reg_n].id = next_id++; reg[reg_n].tag = tag; reg_n++;
}
static void on_free(void *p, uint8_t tag) {
    (void)tag;
    for (size_t i = 0; i < reg_n; i++) if (reg[i].p == p) { memmove(&reg[i], &reg[i + 1], (reg_n - i - 1) * sizeof(Reg)); reg_n--; return; }
    double_free++;
}
static long id_of(void *p) {
    for (size_t i = 0; i < reg_n; i++) if (reg[i].p == p) return (long)reg[i].id;
    return -1;
}

static FILE *T = NULL;     /* trace stream */
static int dangling_seen = 0;

static void put_val(FILE *o, NanoValue v) {
    switch (v.tag) {
        case TAG_VOID: fputs("v", o); break;
        case TAG_INT: fprintf(o, "i%lld", (long long)v.as.i64); break;
        case TAG_U8: fprintf(o, "u%u", v.as.u8); break;
        case TAG_FLOAT: { uint64_t b; memcpy(&b, &v.as.f64, 8); fprintf(o, "f%" PRIu64, b); break; }
        case TAG_BOOL: fputs(v.as.boolean ? "b1" : "b0", o); break;
        case TAG_ENUM: fprintf(o, "e%d", v.as.enum_val); break;
        case TAG_OPAQUE: fprintf(o, "o%u", v.as.proxy_id); break;
        default: {
            const char *k = v.tag == TAG_STRING ? "s" : v.tag == TAG_ARRAY ? "a" : v.tag == TAG_STRUCT ? "S" :
                            v.tag == TAG_UNION ? "U" : v.tag == TAG_TUPLE ? "T" : v.tag == TAG_HASHMAP ? "H" :
                            v.tag == TAG_FUNCTION ? "C" : "?";
            long id = v.as.obj ? id_of(v.as.obj) : -2;
            if (id == -1) { dangling_seen = 1; fprintf(o, "%s@DANGLING", k); }
            else if (id == -2) fprintf(o, "%s@NULL", k);
            else fprintf(o, "%s@%ld", k, id);
        }
    }
}

static void put_heap(FILE *o) {
    for (size_t i = 0; i < reg_n; i++) {
        VmHeapHeader *h = (VmHeapHeader *)reg[i].p;
        const char *kind = "?"; NanoValue *kids = NULL; uint32_t nk = 0;
        switch (reg[i].tag) {
            case TAG_STRING: kind = "str"; break;
            case TAG_ARRAY: kind = "arr"; kids = ((VmArray *)reg[i].p)->elements; nk = ((VmArray *)reg[i].p)->length; break;
            case TAG_STRUCT: kind = "struct"; kids = ((VmStruct *)reg[i].p)->fields; nk = ((VmStruct *)reg[i].p)->field_count; break;
            case TAG_UNION: kind = "union"; kids = ((VmUnion *)reg[i].p)->fields; nk = ((VmUnion *)reg[i].p)->field_count; break;
            case TAG_TUPLE: kind = "tuple"; kids = ((VmTuple *)reg[i].p)->elements; nk = ((VmTuple *)reg[i].p)->count; break;
            case TAG_FUNCTION: kind = "clos"; kids = ((VmClosure *)reg[i].p)->captures; nk = ((VmClosure *)reg[i].p)->capture_count; break;
            case TAG_HASHMAP: kind = "hmap"; break;
        }
        fprintf(o, "%s%" PRIu64 "=%u/%s[", i ? " " : "", reg[i].id, h->ref_count, kind);
        for (uint32_t k = 0; k < nk; k++) { if (k) fputc(',', o); put_val(o, kids[k]); }
        if (reg[i].tag == TAG_HASHMAP) {
            /* keys and values of every entry are references the map holds */
            VmHashMap *hm = (VmHashMap *)reg[i].p;
            int first = 1;
            for (uint32_t b = 0; hm->buckets && b < hm->bucket_count; b++) {
                for (VmHMEntry *e = hm->buckets[b]; e; e = e->next) {
                    if (!first) fputc(',', o);
                    first = 0;
                    put_val(o, e->key); fputc(',', o); put_val(o, e->value);
                }
            }
        }
        fputc(']', o);
    }
}

static void step_hook(VmState *vm, uint32_t ip) {
    if (!T) return;
    fprintf(T, "%u:%u:%u:", ip, vm->stack_size, vm->frame_count);
    for (uint32_t i = 0; i < vm->stack_size; i++) { if (i) fputc(',', T); put_val(T, vm->stack[i]); }
    fputc(':', T);
    for (uint32_t i = 0; i < vm->global_count; i++) { if (i) fputc(',', T); put_val(T, vm->globals[i]); }
    fputc(':', T);
    for (uint32_t i = vm->frame_count; i > 0; i--) {      /* innermost first */
        if (i != vm->frame_count) fputc(',', T);
        if (vm->frames[i - 1].closure) { NanoValue cv = val_closure(vm->frames[i - 1].closure); put_val(T, cv); } else fputc('-', T);
    }
    fputc(':', T);
    put_heap(T);
    fputc('|', T);
}

static void do_verify(char *arg) {
    size_t n; uint8_t *b = unhex(arg, &n);
    if (!b) { puts("bad-op"); return; }
    NvmModule *m = nvm_deserialize(b, (uint32_t)n);
    free(b);
    if (!m) { puts("loaderr"); return; }
    NvmVerifyResult r = nvm_verify(m);
    puts(r.ok ? "ok" : "fail");
    nvm_module_free(m);
}

static void do_run(char *arg) {
    char *save = NULL;
    char *t1 = strtok_r(arg, " ", &save), *t2 = strtok_r(NULL, " ", &save), *t3 = strtok_r(NULL, " ", &save);
    if (!t1 || !t2 || !t3) { puts("bad-op"); return; }
    uint64_t fuel = strtoull(t1, NULL, 10);
    int trace = atoi(t2);
    size_t n; uint8_t *b = unhex(t3, &n);
    if (!b) { puts("bad-op"); return; }
    NvmModule *m = nvm_deserialize(b, (uint32_t)n);
    free(b);
    if (!m) { puts("loaderr"); return; }
    NvmVerifyResult vr = nvm_verify(m);
    if (!vr.ok) { puts("verifyfail"); nvm_module_free(m); return; }
    /* imports are run only when every one names a function of the VM's own runtime (empty module name, "vm_" prefix):
     * the builtins that the code generator implements as extern calls */
    if (m->import_count > 0 && !getenv("VM_PROBE_RUN_VM_EXTERNS")) { puts("has-imports"); nvm_module_free(m); return; }
    for (uint32_t ii = 0; ii < m->import_count; ii++) {
        const char *mn = nvm_get_string(m, m->imports[ii].module_name_idx);
        const char *fn = nvm_get_string(m, m->imports[ii].function_name_idx);
        if (!mn || mn[0] != 0 || !fn || strncmp(fn, "vm_", 3) != 0) { puts("has-imports"); nvm_module_free(m); return; }
    }
    if (m->import_count > 0) {
        static int ffi_ready = 0;
        if (!ffi_ready) { vm_ffi_init(); ffi_ready = 1; }
    }

    reg_n = 0; next_id = 0; double_free = 0; dangling_seen = 0;
    vm_verif_alloc_hook = on_alloc; vm_verif_free_hook = on_free;
    char *obuf = NULL; size_t olen = 0; FILE *out = open_memstream(&obuf, &olen);
    char *tbuf = NULL; size_t tlen = 0;
    T = trace ? open_memstream(&tbuf, &tlen) : NULL;

    VmState *vm = calloc(1, sizeof(VmState));
    vm_init(vm, m);
    vm->output = out;
    vm->verif_fuel_on = 1; vm->verif_fuel = fuel; vm->verif_step_hook = step_hook;
    VmResult r = vm_execute(vm);
    fflush(out);
    if (T) { fclose(T); fwrite(tbuf, 1, tlen, stdout); free(tbuf); T = NULL; }
    if (vm->verif_fuel_exhausted) printf("R res=unsupported(fuel)");
    else printf("R res=%d", (int)r);
    if (!vm->verif_fuel_exhausted && (r == VM_ERR_DECODE || r == VM_ERR_INVALID_OPCODE)) printf(" eip=%u efn=%u", vm->ip, vm->current_fn);
    printf(" out=");
    if (olen == 0) putchar('-'); else for (size_t i = 0; i < olen; i++) printf("%02x", (unsigned char)obuf[i]);
    printf(" top="); put_val(stdout, vm_get_result(vm));
    printf(" live=%zu dangling=%s\n", reg_n, (dangling_seen || double_free) ? "true" : "false");
    fclose(out); free(obuf);
    vm_destroy(vm);
    free(vm);
    vm_verif_alloc_hook = NULL; vm_verif_free_hook = NULL;
    nvm_module_free(m);
}

int main(void) {
    char *line = NULL; size_t cap = 0; ssize_t len;
    setvbuf(stdout, NULL, _IOFBF, 1 << 16);
    while ((len = getline(&line, &cap, stdin)) > 0) {
        while (len > 0 && (line[len - 1] == '\n' || line[len - 1] == '\r')) line[--len] = 0;
        if (len == 0) { puts(""); continue; }
        char *sp = strchr(line, ' ');
        char *arg = sp ? sp + 1 : line + len;
        if (sp) *sp = 0;
        if (!strcmp(line, "verify")) do_verify(arg);
        else if (!strcmp(line, "vm.run")) do_run(arg);
        else puts("bad-op");
        fflush(stdout);
    }
    free(line);
    return 0;
}
