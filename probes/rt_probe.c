/* Probe: the real DynArray and GC runtime (src/runtime) behind the driver's line protocol.
 *   dyn <op,op,...>   ops: push:v pop get:i set:i:v rm:i clear reserve:n clone len cap   (histories with valid preconditions)
 *   gc <op,op,...>    ops: alloc retain:k release:k stats
 *   list <op,...>     the generated list type List<int> (src/runtime/list_int.c): new:c push:v pop ins:i:v rm:i get:i set:i:v clear len
 */
#define _GNU_SOURCE
#include <stdio.h>
#include <stdlib.h>
#include <string.h>
#include <inttypes.h>
#include "runtime/dyn_array.h"
#include "runtime/gc.h"
#include "runtime/list_int.h"

int g_argc = 0; char **g_argv = NULL;

static void do_dyn(char *arg) {
    DynArray *a = dyn_array_new(ELEM_INT);
    int first = 1;
    for (char *t = strtok(arg, ","); t; t = strtok(NULL, ",")) {
        if (!first) putchar(','); first = 0;
        long long x, y;
        if (sscanf(t, "push:%lld", &x) == 1) { a = dyn_array_push_int(a, x); putchar('-'); }
        else if (!strcmp(t, "pop")) { bool ok; int64_t v = dyn_array_pop_int(a, &ok); if (ok) printf("%" PRId64, v); else putchar('E'); }
        else if (sscanf(t, "get:%lld", &x) == 1) { printf("%" PRId64, dyn_array_get_int(a, x)); }
        else if (sscanf(t, "set:%lld:%lld", &x, &y) == 2) { dyn_array_set_int(a, x, y); putchar('-'); }
        else if (sscanf(t, "rm:%lld", &x) == 1) { a = dyn_array_remove_at(a, x); putchar('-'); }
        else if (!strcmp(t, "clear")) { dyn_array_clear(a); putchar('-'); }
        else if (sscanf(t, "reserve:%lld", &x) == 1) { dyn_array_reserve(a, x); putchar('-'); }
        else if (!strcmp(t, "clone")) { DynArray *b = dyn_array_clone(a); gc_release(a); a = b; putchar('-'); }
        else if (!strcmp(t, "len")) printf("%" PRId64, dyn_array_length(a));
        else if (!strcmp(t, "cap")) printf("%" PRId64, dyn_array_capacity(a));
        else printf("?");
    }
    puts("");
    gc_release(a);
}

static void do_gc(char *arg) {
    void *objs[4096]; int n = 0;
    size_t base = gc_get_stats().num_objects;
    int first = 1;
    for (char *t = strtok(arg, ","); t; t = strtok(NULL, ",")) {
        if (!first) putchar(','); first = 0;
        int k;
        if (!strcmp(t, "alloc")) { if (n < 4096) objs[n++] = gc_alloc(24, GC_TYPE_STRING); putchar('-'); }
        else if (sscanf(t, "retain:%d", &k) == 1) { if (k < n && gc_is_managed(objs[k])) gc_retain(objs[k]); putchar('-'); }
        else if (sscanf(t, "release:%d", &k) == 1) { if (k < n) gc_release(objs[k]); putchar('-'); }
        else if (!strcmp(t, "stats")) {
            printf("n=%zu:", gc_get_stats().num_objects - base);
            for (int i = 0; i < n; i++) putchar(gc_is_managed(objs[i]) ? '1' : '0');
        } else printf("?");
    }
    puts("");
    for (int i = 0; i < n; i++) while (gc_is_managed(objs[i])) gc_release(objs[i]);
}

static void do_list(char *arg) {
    List_int *l = list_int_new();
    int first = 1;
    for (char *t = strtok(arg, ","); t; t = strtok(NULL, ",")) {
        if (!first) putchar(','); first = 0;
        long long x, y;
        if (sscanf(t, "new:%lld", &x) == 1) { list_int_free(l); l = x > 0 ? list_int_with_capacity((int)x) : list_int_new(); putchar('-'); }
        else if (sscanf(t, "push:%lld", &x) == 1) { list_int_push(l, x); putchar('-'); }
        else if (!strcmp(t, "pop")) printf("%" PRId64, list_int_pop(l));
        else if (sscanf(t, "ins:%lld:%lld", &x, &y) == 2) { list_int_insert(l, (int)x, y); putchar('-'); }
        else if (sscanf(t, "rm:%lld", &x) == 1) printf("%" PRId64, list_int_remove(l, (int)x));
        else if (sscanf(t, "get:%lld", &x) == 1) printf("%" PRId64, list_int_get(l, (int)x));
        else if (sscanf(t, "set:%lld:%lld", &x, &y) == 2) { list_int_set(l, (int)x, y); putchar('-'); }
        else if (!strcmp(t, "clear")) { list_int_clear(l); putchar('-'); }
        else if (!strcmp(t, "len")) printf("%d", list_int_length(l));
        else printf("?");
    }
    puts("");
    list_int_free(l);
}

int main(void) {
    gc_init();
    char *line = NULL; size_t cap = 0; ssize_t len;
    while ((len = getline(&line, &cap, stdin)) > 0) {
        while (len > 0 && (line[len-1] == '\n' || line[len-1] == '\r')) line[--len] = 0;
        if (len == 0) { puts(""); continue; }
        char *sp = strchr(line, ' '); char *arg = sp ? sp + 1 : line + len; if (sp) *sp = 0;
        if (!strcmp(line, "dyn")) do_dyn(arg);
        else if (!strcmp(line, "gc")) do_gc(arg);
        else if (!strcmp(line, "list")) do_list(arg);
        else puts("bad-op");
        fflush(stdout);
    }
    return 0;
}
